#!/bin/bash
# run every quick check with several seeds on the unchanged tree; any VIOLATION / non-zero exit is printed
out=${1:-/tmp/seeds.log}; : > $out
for seed in ${SEEDS:-2 3 4 5 6 7 8}; do
  for id in C01 C02 C03 C04 C05 C06 C07 C08 C09 C10 C11 C12 C13 C14 C15 C16 C17 C18 C19; do
    r=$(VERIF_SEED=$seed ./check $id ${TIER:-quick} 2>&1); rc=$?
    echo "seed=$seed $id rc=$rc $(echo "$r" | grep -c '^VIOLATION') violations; $(echo "$r" | tail -1)" >> $out
    if [ $rc -ne 0 ]; then echo "$r" | grep -E "VIOLATION|violation sig" | head -5 >> $out; fi
  done
done
echo DONE >> $out
