#!/bin/bash
# usage: tools/mutant.sh <patch> <ID>...   — applies the patch to /repo, runs the pinned tests and the quick
# checks of the given properties, prints one result line, and always restores /repo.
patch="$(readlink -f "$1")"; shift
cd /repo || exit 2
if ! git diff --quiet; then echo "repo dirty"; exit 2; fi
if ! git apply "$patch" 2>/tmp/mutant.err; then echo "MUTANT $(basename $patch): patch does not apply: $(head -1 /tmp/mutant.err)"; exit 2; fi
trap 'git -C /repo checkout -- . ; git -C /repo clean -fdq src tests 2>/dev/null' EXIT
tests="pass"
if [ -z "$SKIP_TESTS" ]; then
  if ! cargo test --offline --quiet >/tmp/mutant.test 2>&1; then tests="FAIL"; fi
fi
res=""
for id in "$@"; do
  out=$(VERIF_SEED=${VERIF_SEED:-1} /verif/check "$id" quick 2>&1); rc=$?
  sig=$(echo "$out" | grep -m1 "^VIOLATION" | sed 's/.*sig=//' | cut -c1-80)
  res="$res $id:rc=$rc${sig:+[$sig]}"
done
echo "MUTANT $(basename $patch): tests=$tests$res"
