#!/bin/bash
# usage: tools/store_wave2.sh <ID> <n> [src-root] [worktree] [offset]   (offset: stored as <ID>-<n+offset>, default 2)
# Verifies a second-wave sub-agent change (patch<n>.diff, demo<n>*, notes<n>.md under <src-root>/<ID>/) in a scratch
# worktree of /repo's HEAD: the pinned tests pass with it, its demonstration passes without it and fails with it.
# Stores it as /verif/seeded/<ID>-<n+2>/ (original demo file names kept; paths inside them rewritten) and writes
# verify.json there. Running checks against it is done separately (tools/mutant.sh on patch.diff).
id=$1; n=$2; root=${3:-/tmp/seeded-out2}; wt=${4:-/tmp/wt2-$id}; off=${5:-2}
src=$root/$id; k=$((n+off)); dst=/verif/seeded/$id-$k
[ -f $src/patch$n.diff ] || { echo "STORE $id-$k: no $src/patch$n.diff"; exit 2; }
mkdir -p $dst
cp $src/patch$n.diff $dst/patch.diff
cp $src/notes$n.md $dst/notes.md 2>/dev/null
for f in $src/demo$n*; do [ -e "$f" ] && cp -r "$f" $dst/; done
# auxiliary files the demonstration needs (a library next to the program, ...)
for f in $src/*; do case "$(basename $f)" in prompt.txt|property.txt|patch*.diff|notes*.md|demo*|scratch) ;; *) cp -r "$f" $dst/ ;; esac; done
# the demonstrations refer to the agent's own directories
grep -rlI "$root/$id\|/tmp/wt2-$id" $dst 2>/dev/null | while read f; do
  case "$f" in */notes.md|*/patch.diff) ;; *) sed -i "s#$root/$id#$dst#g; s#/tmp/wt2-$id#$wt#g" "$f" ;; esac
done
cd $wt || exit 2
git checkout -q --detach $(git -C /repo rev-parse HEAD) 2>/dev/null
git checkout -q -- . ; git clean -fdq tests src
run_demo() {
  if [ -f $dst/demo$n.sh ]; then
    out=$(sh $dst/demo$n.sh 2>&1); rc=$?
    rm -rf $dst/scratch
    if [ $rc -eq 0 ] && ! echo "$out" | grep -q FAIL; then echo pass; else echo fail; fi
  elif [ -f $dst/demo$n.rs ]; then
    cp $dst/demo$n.rs tests/demo$n.rs
    cargo test --offline -q --test demo$n >/tmp/store-$id-$n.demo.log 2>&1 && echo pass || echo fail
    rm -f tests/demo$n.rs
  elif [ -f $dst/demo$n.scm ] && [ -f $dst/demo$n.expected ]; then
    cargo run --offline -q -- $dst/demo$n.scm 2>/dev/null | diff -q - $dst/demo$n.expected >/dev/null && echo pass || echo fail
  else echo unknown; fi
}
without=$(run_demo)
git apply $dst/patch.diff || { echo "STORE $id-$k: patch does not apply"; exit 2; }
if cargo test --offline -q >/tmp/store-$id-$n.test.log 2>&1; then tests=pass; else tests=FAIL; fi
with=$(run_demo)
git checkout -q -- . ; git clean -fdq tests src
python3 - "$id" "$k" "$tests" "$without" "$with" <<'PY'
import json,sys
id,k,tests,without,with_=sys.argv[1:6]
json.dump({'existing_tests_with_change':tests,'demo_without_change':without,'demo_with_change':with_,
  'commands':['cargo test --offline (patch applied, scratch worktree of /repo HEAD)',
              'demo<n>.rs copied to tests/ and run with cargo test --offline --test demo<n>, or cargo run --offline -q -- demo<n>.scm | diff - demo<n>.expected; each without and with the patch']},
  open('/verif/seeded/%s-%s/verify.json'%(id,k),'w'),indent=1)
PY
echo "STORE $id-$k tests_with_change=$tests demo_without=$without demo_with=$with"
