#!/bin/bash
# usage: tools/verify_seeded.sh <ID-N> [worktree]  — re-verifies a stored seeded change against a scratch worktree of the
# current tree: pinned tests pass with it, the demonstration passes without it and fails with it.
sid=$1; wt=${2:-/tmp/wt-verify}
dir=/verif/seeded/$sid
if [ ! -d $wt ]; then git -C /repo worktree add -q --detach $wt HEAD || exit 2; fi
cd $wt || exit 2
git checkout -q --detach $(git -C /repo rev-parse HEAD) 2>/dev/null
git checkout -q -- . ; git clean -fdq tests src
run_demo() {
  if [ -f $dir/demo.sh ]; then
    # the sub-agent's script refers to its own worktree and output directory: run its commands against this worktree
    sed "s#/tmp/wt-C[0-9][0-9]#$wt#g; s#/tmp/seeded-out/C[0-9][0-9]/demo[12]#$dir/demo#g; s#/tmp/seeded-out/C[0-9][0-9]#$dir#g" $dir/demo.sh > /tmp/verify-demo.sh
    out=$(sh /tmp/verify-demo.sh 2>&1); rc=$?
    if [ $rc -eq 0 ] && ! echo "$out" | grep -q FAIL; then echo pass; else echo fail; fi
  elif [ -f $dir/demo.rs ]; then
    cp $dir/demo.rs tests/seeded_demo.rs
    cargo test --offline -q --test seeded_demo >/dev/null 2>&1 && echo pass || echo fail
    rm -f tests/seeded_demo.rs
  elif [ -f $dir/demo.scm ] && [ -f $dir/demo.expected ]; then
    cargo run --offline -q -- $dir/demo.scm 2>/dev/null | diff -q - $dir/demo.expected >/dev/null && echo pass || echo fail
  else echo unknown; fi
}
without=$(run_demo)
git apply $dir/patch.diff || { echo "VERIFY $sid: patch does not apply"; exit 2; }
if cargo test --offline -q >/tmp/verify-test.log 2>&1; then tests=pass; else tests=FAIL; fi
with=$(run_demo)
git checkout -q -- . ; git clean -fdq tests src
echo "VERIFY $sid tests_with_change=$tests demo_without=$without demo_with=$with"
