#!/usr/bin/env python3
"""Regenerates /verif/MANIFEST.json from the table below (kept in one place so that it stays valid)."""
import json, subprocess

BASELINE_OFF = ("cd /repo && cargo nextest run --workspace --no-fail-fast --offline --test-threads 8 "
                "|| cargo test --workspace --no-fail-fast --offline")

# id -> (technique, level text, level note, design ref)
CHECKS = {
 "C09": ("exhaustive operand-grid enumeration (unary, binary, 3-operand folds) + proptest random operands; oracle: exact i128 rationals / IEEE binary32 bit patterns over the admissible fold orders",
         "Exploration, exhaustive over the grid: every unary and binary operation on every (pair of) grid operand(s), every 3-operand fold (thorough; strided sample in quick), plus random operands; an exact result must equal the i128 rational (claimed for operands below 2^15 whose result fits), may otherwise only become an error or inexact, never a different exact number; inexact results are compared bit for bit.",
         "Trusted: refnum (i128 rationals, f32 ops of the host). Operations are applied through Interpreter::apply_procedure to ready-made values.",
         "DESIGN.md §5 C09"),
 "C10": ("exhaustive grid pairs/triples for = < > <= >= max min eqv? + order laws + random operands; oracle: i128 cross-multiplication, binary32 comparison after conversion",
         "Exploration, exhaustive over the grid (pairs always, triples strided in quick): every predicate on every pair/triple of representations, max/min value and exactness, eqv? on pairs, trichotomy/transitivity/<= decomposition on exact values.",
         "Trusted: refnum. NaN and signed zero under eqv?/max/min are not judged.",
         "DESIGN.md §5 C10"),
 "C16": ("random value trees built in Rust -> Display -> (quote TEXT) -> structural comparison; shape clauses; injectivity on pairs; bulk sweep of binary32 (thorough: every finite value)",
         "Exploration: 50k (thorough 300k) value trees, 600 (thorough 5000) batches displayed through the built binary, round-tripped through the real printer and reader and compared in value and exactness, 20k (thorough 200k) numbers computed by the interpreter (printed text = text of the value read back, equal? to it), long flat structures of 200-700 elements, composition of the text checked against the shape rules; every 2048th finite binary32 in quick, all 4.28e9 finite binary32 values in thorough (exhaustive for the real clause).",
         "Trusted: the SVal snapshot and its equivalence (numbers by value+exactness). Strings, non-finite reals and symbols needing bars are outside the property.",
         "DESIGN.md §5 C16"),
 "C01": ("type-directed random program generation (proptest choice sequences) against a reference evaluator (value + tick trace per form, 4 operand orders) + metamorphic equivalent spellings",
         "Exploration: thousands of random terminating programs over the core forms evaluated form by form on one interpreter and on the reference evaluator; define-sugar flipped and every call routed through apply must give identical outcomes.",
         "Trusted: refeval.rs (reference evaluator with unit tests from R7RS examples), the generator's typing discipline. Programs whose integers leave i32 are outside the class (counted).",
         "DESIGN.md §5 C01"),
 "C02": ("generated loop programs (loop shape x composition of tail contexts x N) with a host probe sampling the real machine stack address and the thread's live heap at every iteration; closed-form result oracle",
         "Exploration with physical measurement: every shape x every single context, every depth-2 composition (quick: self shape; thorough: all 25 shapes, incl. four variadic loops with an empty rest list), sampled depth-3, over 23 tail contexts (incl. tests that are variables or non-boolean true values; loops without operands); stack growth between the first eighth and the second half must stay below 2 KiB and live heap growth below 1 byte/iteration for N=4000 (thorough 40000).",
         "Trusted: the probe (address of a local in a native procedure, counting global allocator per thread). Measured on this build only. Known finding (recorded in known_findings.json): a body with an internal procedure definition leaks its frame (heap only; the stack bound is still checked for that shape).",
         "DESIGN.md §5 C02"),
 "C03": ("stateful operation histories (proptest choice sequences interpreted as a state machine) against the store model of the reference evaluator + identity-partition check on Rc addresses",
         "Exploration: thousands of histories of definitions, assignments, closure creations/calls and vector operations with aliasing through variables, arguments, lists, vectors and captured references; every form's value is compared with the store model and the partition of vector-valued variables into identity classes with the model's.",
         "Trusted: refeval.rs store model. A vector is stored into itself only in one scripted operation whose reads return acyclic values.",
         "DESIGN.md §5 C03"),
 "C04": ("exhaustive small rule sets x small uses + random rule sets with uses derived from their own patterns and mutated; oracle: reference syntax-rules matcher/instantiator",
         "Exploration, exhaustive for one-rule sets over a 6-element pattern alphabet (517 patterns x 497 uses incl. dotted ones and literal look-alikes), sampled two-rule sets, random larger rule sets, sub-patterns nested up to 12 levels, histories of up to 399 rejected nested uses on one thread followed by matching uses; the value of a use must be the reference instantiation of the first matching rule, a use matching no rule must be a MacroMissMatch error.",
         "Trusted: refmacro.rs (appendix C of DESIGN.md, own unit tests). Class as fixed by the property: final ellipsis, depth 1, >= 1 item per ellipsis.",
         "DESIGN.md §5 C04"),
 "C05": ("exhaustive nesting family (every derived form in every sub-form position of every derived form) + random type-directed programs with ticking sub-forms against the reference evaluator's direct R7RS semantics",
         "Exploration: 576 exhaustive nestings, exhaustive cond/case clause shapes, 50 special shapes (tail binding forms, keyword symbols as data and as variable names, eqv-selection of case, errors in non-final body forms, curried-call bodies), 60 scope / large-form programs (let* scopes, set! under shadowing, flat forms of 257-702 sub-forms) plus thousands of random programs; value and order/multiplicity of evaluation (tick trace) per form.",
         "Trusted: refeval.rs. Known finding: unhygienic templates capture user variables x/temp/atom-key (attributed by a renaming experiment, avoided by construction in 7/8 of the random cases).",
         "DESIGN.md §5 C05"),
 "C08": ("fault injection: 8 fault kinds x 6 calling contexts (incl. deferred) x random embeddings, plus the same kinds inside procedures of generated user libraries into valid random programs, compared form by form with the reference evaluator (error kind, trace up to the fault, later forms)",
         "Exploration / fault enumeration: every kind x context skeleton with 160 (thorough 600) random embeddings and 2000 (thorough 10000) user-library cases; the faulting form must yield the error kind, keep the effects completed before it, and later forms must evaluate normally.",
         "Trusted: refeval.rs error semantics; error kinds are matched through the public ErrorData/LogicError variants.",
         "DESIGN.md §5 C08"),
 "C11": ("per-procedure random argument tuples inside the documented domain + exhaustive c[ad]r on all tree shapes of depth <= 3 + random compositions; oracle: reference list library (value, error, tick trace of the procedure argument)",
         "Exploration: 22 sub-checks (one per procedure family) x 500 (thorough 3000) argument tuples, exhaustive c[ad]r shapes (thorough), compositions; value, error-or-not and the order/multiplicity of calls to the procedure argument.",
         "Trusted: refeval.rs list primitives (R7RS / minischeme definitions). memq is exercised on atoms only; map/for-each with several lists over integer lists.",
         "DESIGN.md §5 C11"),
 "C12": ("exhaustive enumeration of import-set terms (depth <= 2, thorough 3) over a native 4-export library, 2- and 3-set declarations, histories of several declarations; oracle: import-set algebra model; three runs in fresh threads with the identifier lists written in three orders",
         "Exploration, exhaustive up to depth 2 (strided sample in quick when large): every admissible only/except subset, renaming (swaps, chains, prefix-like targets) and prefix (incl. identity renaming pairs), the bare library next to every depth-2 term over it; the root frame after the import must hold exactly the model's names and values, identically on three fresh interpreters.",
         "Trusted: the 20-line algebra model; the bare interpreter's root frame is empty before the import.",
         "DESIGN.md §5 C12"),
 "C13": ("random library/program pairs (registered sources and .sld files) against a reference module system (one instance per library, library environment = imports + own definitions); attribution experiment for per-import instantiation",
         "Exploration: 10000 (thorough 40000) generated library sets with renamed exports, unexported helpers, internal state, expression statements in library bodies, cross-library use, and importing programs that collide with, redefine and probe library names and observe state through several import paths.",
         "Trusted: refeval.rs module model. Exported variables are constants or procedures (mutation of exported bindings is outside the property).",
         "DESIGN.md §5 C13"),
 "C14": ("exhaustive small-scope enumeration of dependency graphs x node statuses x import histories, libraries as files and as registered sources; oracle: graph reachability/cycle model + self-differential against a fresh interpreter; step/depth budget of hook H1 for termination",
         "Exploration, exhaustive on 1-2 libraries (3 sampled in thorough): every graph, every status assignment, every history of <= 3 attempts (12 file statuses incl. a directory in place of the file and a malformed form in a balanced body; import declarations after a first body part; half of the graphs imported into a program that already binds the names a faulty library claims to export); a library file that appears after an attempt that did not find it; each attempt's outcome class must be admitted by the graph, equal the outcome on a fresh interpreter and terminate; libraries must be found relative to the program directory.",
         "Trusted: the reachability model; temp directories under the system temp dir are created and removed by the run.",
         "DESIGN.md §5 C14"),
 "C15": ("the C08 fault programs rendered with random multi-line layouts whose token/form extents are recorded by the renderer; oracle: reported location inside the failing form / offending token; stray and missing parentheses for syntax locations",
         "Exploration: 96 kind x context x (with/without derived forms) skeletons, repeated-form cases, a third of the programs read from files with random layouts (LF/CRLF, comments, indentation, preceding forms); every located error is checked against the extent of the failing form and, for unbound/non-procedure faults, of the offending token.",
         "Trusted: the renderer's cursor arithmetic (same convention as the lexer: column advances per character, LF resets). The former findings (locations taken from bundled macro templates / base.sld) are repaired; their recognisers remain as violation signatures.",
         "DESIGN.md §5 C15"),
 "C06": ("random datum trees x random layouts (proptest) with round-trip and metamorphic layout oracle; exhaustive short-string differential of the real lexer against an independent reference tokenizer",
         "Exploration: thousands of datum trees over every supported token class rendered with random inter-token layout must evaluate (quoted) to the tree they came from, two layouts alike; exhaustively, every string up to length 5 (thorough 6) over a 17-character alphabet is lexed by the real lexer and by the reference tokenizer: valid strings must give the same tokens with the same end locations, and no accepted text may have a token split before a non-delimiter.",
         "Trusted: reflex.rs (reference tokenizer written from R7RS 7.1.1 for the supported grammar, own unit tests). Known finding: #t/#f/#\\c are not delimiter-checked (pinned tests assert it).",
         "DESIGN.md §5 C06"),
 "C17": ("generated program files run through the built binary from another working directory; oracle: reference evaluator's output + in-process evaluation of the same text for the diagnostic; non-file arguments",
         "Exploration: 4000 (thorough 20000) process runs of random displaying programs with an optional injected run-time or syntax fault, comments, LF/CRLF, with/without final newline, absolute/relative path, optional own library with a decoy in the working directory; stdout, exit status and the single FILE:LINE:COL MESSAGE diagnostic are checked.",
         "Trusted: refeval.rs display model for the unambiguous printable subset; the binary is rebuilt from /repo by ./check.",
         "DESIGN.md §5 C17"),
 "C19": ("random program pairs over a shared name pool interleaved over two instances on one thread, extra instances created at random points; self-differential oracle (B alone in a fresh thread)",
         "Exploration: 8000 (thorough 40000) program pairs (a third with one of 19 scripted openings) with colliding variables, procedures, macro keywords (incl. bundled ones) and a library name registered with different contents per instance; B's per-form outcomes must not depend on A, instance creation must always succeed.",
         "Trusted: nothing beyond the driver (the oracle is the interpreter itself run alone).",
         "DESIGN.md §5 C19"),
 "C18": ("exhaustive strings over a 10-character alphabet against a reference completeness predicate (hook H2); REPL sessions over a pipe with random line splittings (metamorphic) against in-process evaluation",
         "Exploration, exhaustive for the completeness predicate: every string up to length 7 (thorough 9: 1.1e9 strings) over ( ) \" ; LF # \\ | a SPACE; sessions through the built binary compare transcripts (lines and bytes) across line splittings and with in-process evaluation; 16 one-line forms with unusual token spellings must be evaluated when entered whenever the interpreter itself accepts them.",
         "Trusted: reflex::completeness (token-aware open-list depth); strings whose depth goes negative are not judged.",
         "DESIGN.md §5 C18"),
 "C07": ("exhaustive short strings + grammar-guided token soup + token mutation of real programs (proptest choice sequences, shrinking) + file faults; oracle: no panic by call site, interpreter still evaluates (quote ok)",
         "Exploration: every string up to length 4 over a 20-character alphabet, thousands of grammar-guided soups and mutations, unicode noise and unreadable files are evaluated in-process; any panic (identified by file+message) or a broken sanity form is a violation. Search, not proof: texts beyond the explored sizes are not covered.",
         "Trusted: the panic hook/catch_unwind driver; hook H1 only converts non-termination, deep recursion and huge allocations (outside the claim) into errors. All panics found are repaired (DESIGN.md 12.1).",
         "DESIGN.md §5 C07"),
}

NOT_YET = {}

def main():
    props = [json.loads(l) for l in open('/verif/properties.jsonl')]
    checks = []
    na = []
    for p in props:
        pid = p['id']
        if pid in CHECKS:
            tech, text, note, ref = CHECKS[pid]
            checks.append({
                "property_id": pid,
                "quick_cmd": f"./check {pid} quick",
                "thorough_cmd": f"./check {pid} thorough",
                "evidence_file": f"/verif/evidence/{pid}.json",
                "replay_cmd_template": "./check --replay {path}",
                "engine": "rv",
                "level_claimed": {"category": "exploration", "text": text, "design_ref": ref},
                "level_note": note,
                "technique": tech,
            })
        else:
            na.append({"property_id": pid, "reason": NOT_YET.get(pid, "check not built yet in this session (work in progress; see DESIGN.md §5 for the planned generator and oracle)")})
    commits = subprocess.run(["git", "-C", "/repo", "log", "--format=%h %s"], capture_output=True, text=True).stdout.splitlines()
    hook_commits = [c.split()[0] for c in commits if c.split(' ', 1)[1].startswith("verif hook")]
    m = {
        "version": 1,
        "setup_cmd": "./check --setup",
        "hooks": {
            "guard": "ruschm_verif",
            "enable": "RUSTFLAGS=\"--cfg ruschm_verif\" (set in /verif/harness/.cargo/config.toml; `cargo build` is run from /verif/harness)",
            "baseline_off_cmd": BASELINE_OFF,
            "source_commits": hook_commits,
            "add_only": True,
        },
        "engines": [
            {"name": "rv", "path": "/verif/harness", "serves_properties": sorted(CHECKS.keys()),
             "kind_free_text": "Rust harness (proptest choice-sequence generators, exhaustive small-scope enumerators, reference models, in-process driver around the real interpreter with panic-site hook)"},
        ],
        "checks": checks,
        "notes": "All checks: exit 0 held / 1 VIOLATION line / 2 inconclusive. VERIF_SEED seeds every generator (default 1). Known findings: /verif/known_findings.json.",
    }
    # all 19 properties are claimed: the list is written even when empty so that the file says so
    m["not_applicable"] = na
    json.dump(m, open('/verif/MANIFEST.json', 'w'), indent=1)
    print("checks:", len(checks), "not_applicable:", len(na))

main()
