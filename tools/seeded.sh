#!/bin/bash
# usage: tools/seeded.sh <ID> <N> <check IDs...>
# verifies a sub-agent's seeded change in its scratch worktree (tests pass with it, demo passes without / fails with it),
# stores it under /verif/seeded/<ID>-<N>/ and runs the given quick checks against it (applied to /repo, then reverted).
id=$1; n=$2; shift 2
src=/tmp/seeded-out/$id; wt=/tmp/wt-$id; dst=/verif/seeded/$id-$n
[ -f $src/patch$n.diff ] || { echo "no patch $src/patch$n.diff"; exit 2; }
mkdir -p $dst
cd $wt || exit 2
git checkout -q -- . ; git clean -fdq tests src
demo_scm=$src/demo$n.scm
run_demo() {
  if [ -f $src/demo$n.sh ]; then
    cargo build --offline -q >/dev/null 2>&1
    out=$(cd $wt && sh $src/demo$n.sh 2>&1); rc=$?
    if [ $rc -eq 0 ] && ! echo "$out" | grep -q FAIL; then echo pass; else echo fail; fi
  elif [ -f $src/demo$n.rs ]; then
    cp $src/demo$n.rs tests/seeded_demo$n.rs
    cargo test --offline -q --test seeded_demo$n >/dev/null 2>&1 && echo pass || echo fail
    rm -f tests/seeded_demo$n.rs
  elif [ -f "$demo_scm" ] && [ -f $src/demo$n.expected ]; then
    cargo run --offline -q -- $demo_scm 2>/dev/null | diff -q - $src/demo$n.expected >/dev/null && echo pass || echo fail
  elif [ -f $src/demo$n.rs ]; then
    cp $src/demo$n.rs tests/seeded_demo$n.rs
    cargo test --offline -q --test seeded_demo$n >/dev/null 2>&1 && echo pass || echo fail
    rm -f tests/seeded_demo$n.rs
  else
    echo unknown
  fi
}
without=$(run_demo)
git apply $src/patch$n.diff || { echo "patch does not apply in worktree"; exit 2; }
if cargo test --offline -q >/tmp/seeded-test.log 2>&1; then tests=pass; else tests=FAIL; fi
with=$(run_demo)
git checkout -q -- . ; git clean -fdq tests src
cp $src/patch$n.diff $dst/patch.diff
for f in $src/demo$n.*; do cp $f $dst/$(basename $f | sed "s/demo$n/demo/"); done
cp $src/notes$n.md $dst/notes.md 2>/dev/null
# run the checks
res=$(/verif/tools/mutant.sh $dst/patch.diff "$@" 2>&1 | tail -1)
python3 - "$id" "$n" "$tests" "$without" "$with" "$res" <<'PY'
import json,sys,re
id,n,tests,without,with_,res=sys.argv[1:7]
dst='/verif/seeded/%s-%s'%(id,n)
notes=open(dst+'/notes.md').read() if __import__('os').path.exists(dst+'/notes.md') else ''
checks={}
for m in re.finditer(r'(C\d\d):rc=(\d+)(?:\[([^\]]*)\])?',res):
    checks[m.group(1)]={'exit':int(m.group(2)),'signature':m.group(3)}
meta={'property':id,'variant':int(n),'source':'independent sub-agent given only the property text and a scratch worktree',
 'what_it_needs_to_manifest':notes[:1500],
 'verified_in_scratch_worktree':{'existing_tests_with_change':tests,'demo_without_change':without,'demo_with_change':with_,
   'commands':['cargo test --offline (with patch applied)','cargo run --offline -q -- demo.scm | diff - demo.expected (without and with the patch)']},
 'checks_run_against_it':checks,
 'detected':any(v['exit']==1 for v in checks.values())}
json.dump(meta,open(dst+'/meta.json','w'),indent=1)
print('SEEDED %s-%s tests=%s demo(without)=%s demo(with)=%s :: %s'%(id,n,tests,without,with_,res))
PY
