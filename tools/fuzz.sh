#!/bin/bash
# usage: tools/fuzz.sh <target> [runs] [max_len]   targets: c07_text c06_lex c18_bracket choices
# One bounded libFuzzer campaign (cargo-fuzz, nightly) from a fresh corpus seeded with the committed seeds.
# A crash (oracle violation inside the target) is copied to /verif/replays/found as a replay file that
# `./check --replay` understands, and reported as a VIOLATION line; exit 1. No crash: exit 0.
target=$1; runs=${2:-200000}; maxlen=${3:-256}
cd /verif/fuzz || exit 2
export CARGO_NET_OFFLINE=true RUSTFLAGS="--cfg ruschm_verif" ASAN_OPTIONS=detect_leaks=0   # interpreter instances leak Rc cycles by design of the SUT; leak reports at exit are not findings
work=$(mktemp -d /tmp/rv-fuzz-XXXXXX)
mkdir -p $work/corpus $work/artifacts
seeds=""; [ -d seeds/$target ] && seeds=seeds/$target
cargo +nightly fuzz run --fuzz-dir /verif/fuzz $target $work/corpus $seeds -- \
   -runs=$runs -seed=${VERIF_SEED:-1} -len_control=0 -max_len=$maxlen -detect_leaks=0 \
   -artifact_prefix=$work/artifacts/ > $work/log 2>&1
rc=$?
grep -E "^Done|DONE|FUZZ-VIOLATION|  case:|  detail:" $work/log | tail -6
found=0
for a in $work/artifacts/*; do
  [ -f "$a" ] || continue
  found=1
  mkdir -p /verif/replays/found
  h=$(sha1sum "$a" | cut -c1-10)
  prop=$(grep -m1 -o "FUZZ-VIOLATION property=C[0-9]*" $work/log | sed 's/.*=//')
  out=/verif/replays/found/fuzz-$target-$h.json
  python3 - "$a" "$target" "${prop:-C07}" "$out" <<'PY'
import sys,json
a,target,prop,out=sys.argv[1:5]
json.dump({"property":prop,"sub":"fuzz:"+target,"kind":"fuzz-bytes","payload":open(a,'rb').read().hex()},open(out,'w'))
PY
  echo "VIOLATION property=${prop:-C07} replay=$out"
done
rm -rf $work
[ $found -eq 1 ] && exit 1
[ $rc -ne 0 ] && { echo "[fuzz] campaign ended abnormally (status $rc) without an artifact: inconclusive"; exit 2; }
exit 0
