#!/usr/bin/env python3
"""Reads the log of a batch run (tools: mutant.sh over seeded/* and mutants/*) and refreshes
seeded/*/meta.json (checks_run_against_it, detected) and mutants/RESULTS.md."""
import json, re, sys, os, subprocess
log = sys.argv[1] if len(sys.argv) > 1 else '/tmp/batch.log'
head = subprocess.run(["git", "-C", "/repo", "log", "--format=%h", "-1"], capture_output=True, text=True).stdout.strip()
rows = []
for line in open(log):
    m = re.match(r'(SEEDED|MUTANT) (\S+) :: MUTANT \S+: tests=(\S+)((?: C\d\d:rc=\d+(?:\[[^\]]*\])?)*)', line.strip())
    if not m:
        continue
    kind, name, tests, rest = m.groups()
    checks = {}
    for c in re.finditer(r'(C\d\d):rc=(\d+)(?:\[([^\]]*)\])?', rest):
        checks[c.group(1)] = {'exit': int(c.group(2)), 'signature': c.group(3)}
    if kind == 'SEEDED':
        p = '/verif/seeded/%s/meta.json' % name
        d = '/verif/seeded/%s' % name
        if not os.path.exists(p) and os.path.exists(d + '/verify.json'):
            # second-wave change stored by tools/store_wave2.sh: build its meta.json
            notes = open(d + '/notes.md').read() if os.path.exists(d + '/notes.md') else ''
            pid, variant = name.rsplit('-', 1)
            json.dump({'property': pid, 'variant': int(variant),
                       'source': 'independent sub-agent (second wave: told which mechanisms the first-wave changes used and asked for different, harder ones) given only the property text and a scratch worktree',
                       'what_it_needs_to_manifest': notes[:1800],
                       'verified_in_scratch_worktree': json.load(open(d + '/verify.json'))}, open(p, 'w'), indent=1)
        if os.path.exists(p):
            meta = json.load(open(p))
            meta['checks_run_against_it'] = checks
            meta['detected'] = any(v['exit'] == 1 for v in checks.values())
            meta['checked_against_repo_commit'] = head
            json.dump(meta, open(p, 'w'), indent=1)
    else:
        rows.append((name, tests, checks))
if rows:
    with open('/verif/mutants/RESULTS.md', 'w') as f:
        f.write("# Self-made mutants: last run (tools/mutant.sh, quick tier, seed 1, /repo at %s)\n\n" % head)
        f.write("Each patch is applied to /repo, the pinned tests are run (`tests`), the quick check of the targeted property is run\n(exit 1 = VIOLATION reported), and /repo is restored.\n\n")
        f.write("| mutant | pinned tests | check | exit | signature |\n|---|---|---|---|---|\n")
        det = 0
        for name, tests, checks in sorted(rows):
            for c, v in checks.items():
                f.write("| %s | %s | %s | %d | %s |\n" % (name, tests, c, v['exit'], (v['signature'] or '').replace('|', '\\|')))
                det += v['exit'] == 1
        f.write("\n%d mutants, %d detected, %d of them invisible to the pinned tests.\n" % (len(rows), det, sum(1 for n, t, c in rows if t == 'pass' and any(v['exit'] == 1 for v in c.values()))))
print("seeded updated; mutants:", len(rows))
