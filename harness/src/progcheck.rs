//! Comparison of a generated program's behaviour on the interpreter with the reference evaluator,
//! form by form (value, error kind, tick trace), under any of the four consistent operand orders.
use crate::ast::*;
use crate::refeval::{Machine, RErr, ORDERS};
use crate::sut::{self, Budget, Outcome};

#[derive(Clone, Debug)]
pub enum Cmp {
    Pass,
    /// the program left the modelled class at this form (overflow, fuel, ...)
    Skip(String),
    Fail { form: usize, sig: String, detail: String },
}

pub type Obs = Vec<(Outcome, Vec<i32>)>;

pub fn run_sut(forms: &[Form], budget: Budget) -> Obs {
    let texts: Vec<String> = forms.iter().map(render_form).collect();
    sut::run_forms(texts, Some(budget))
}

fn compare_under(forms: &[Form], obs: &Obs, order: crate::refeval::Order) -> Cmp {
    compare_machine(forms, obs, Machine::new(order))
}

/// compare against a prepared model machine (libraries registered, bare frame, ...)
pub fn compare_machine(forms: &[Form], obs: &Obs, mut m: Machine) -> Cmp {
    for (i, f) in forms.iter().enumerate() {
        m.trace.clear();
        let r = m.eval_form(f);
        let trace = std::mem::take(&mut m.trace);
        let (o, otrace) = match obs.get(i) {
            Some(x) => x,
            None => return Cmp::Fail { form: i, sig: "missing-outcome".into(), detail: "interpreter run ended early".into() },
        };
        if let Outcome::Budget(k) = o {
            return Cmp::Skip(format!("interpreter budget {}", k));
        }
        if let Outcome::Panic { site, msg } = o {
            return Cmp::Fail { form: i, sig: sut::panic_sig(site, msg), detail: format!("panic at {}: {}", site, sut::norm_msg(msg)) };
        }
        match &r {
            Err(RErr::OutOfClass(w)) => return Cmp::Skip(format!("out of class: {}", w)),
            Err(RErr::Fuel) => return Cmp::Skip("model fuel".into()),
            Err(e) => match o {
                Outcome::Error(ei) => {
                    if !e.matches(&ei.tag, &ei.arg) {
                        return Cmp::Fail {
                            form: i,
                            sig: format!("wrong-error-kind:{}", e.name().split('(').next().unwrap_or("")),
                            detail: format!("expected {}, got {}", e.name(), o.show()),
                        };
                    }
                }
                other => {
                    return Cmp::Fail {
                        form: i,
                        sig: format!("missing-error:{}", e.name().split('(').next().unwrap_or("")),
                        detail: format!("expected error {}, got {}", e.name(), other.show()),
                    }
                }
            },
            Ok(None) => match o {
                Outcome::NoValue => {}
                Outcome::Error(ei) => {
                    return Cmp::Fail { form: i, sig: format!("unexpected-error:{}", ei.tag), detail: format!("definition failed: {}", o.show()) }
                }
                other => return Cmp::Fail { form: i, sig: "definition-yields-value".into(), detail: other.show() },
            },
            Ok(Some(v)) => match o {
                Outcome::Value(s) => {
                    if !m.matches(v, s) {
                        return Cmp::Fail { form: i, sig: "value-mismatch".into(), detail: format!("expected {}, got {}", m.show(v), s.show()) };
                    }
                }
                Outcome::Error(ei) => {
                    return Cmp::Fail {
                        form: i,
                        sig: format!("unexpected-error:{}", ei.tag),
                        detail: format!("expected {}, got {}", m.show(v), o.show()),
                    }
                }
                other => return Cmp::Fail { form: i, sig: "no-value".into(), detail: format!("expected {}, got {}", m.show(v), other.show()) },
            },
        }
        if &trace != otrace {
            return Cmp::Fail {
                form: i,
                sig: "trace-mismatch".into(),
                detail: format!("evaluation trace expected {:?}, observed {:?}", trace, otrace),
            };
        }
    }
    Cmp::Pass
}

/// Pass if the observation agrees with the model under any of the four operand orders.
pub fn compare(forms: &[Form], obs: &Obs) -> Cmp {
    let mut first = None;
    for o in ORDERS.iter() {
        match compare_under(forms, obs, *o) {
            Cmp::Pass => return Cmp::Pass,
            Cmp::Skip(w) => return Cmp::Skip(w),
            f @ Cmp::Fail { .. } => {
                if first.is_none() {
                    first = Some(f);
                }
            }
        }
    }
    first.unwrap()
}

pub fn program_text(forms: &[Form]) -> String {
    forms.iter().map(render_form).collect::<Vec<_>>().join("\n")
}

pub fn obs_text(obs: &Obs) -> String {
    let mut s = obs.iter().map(|(o, t)| format!("{} {:?}", o.show(), t)).collect::<Vec<_>>().join(" | ");
    if s.len() > 700 {
        crate::sut::truncate_chars(&mut s, 700);
        s.push('…');
    }
    s
}
