//! Type-directed generator of terminating, well-typed Scheme programs over the core and derived forms.
use crate::ast::*;
use crate::runner::Chooser;

#[derive(Clone, Debug, PartialEq)]
pub enum Ty {
    Int,
    Bool,
    Sym,
    /// proper list of integers
    List,
    /// parameter types, has a rest parameter (collecting integers), result type
    Fn(Vec<Ty>, bool, Box<Ty>),
}

impl Ty {
    pub fn order(&self) -> u32 {
        match self {
            Ty::Fn(args, _, ret) => 1 + args.iter().map(|a| a.order()).max().unwrap_or(0).max(ret.order()),
            _ => 0,
        }
    }
}

#[derive(Clone, Debug)]
pub struct GenCfg {
    /// use begin/let/let*/cond/case/and/or/when/unless
    pub derived: bool,
    /// wrap sub-expressions in (tick k e)
    pub ticks: bool,
    /// probability (out of 16) of a tick wrapper
    pub tick_rate: u32,
    /// allow set! of non-procedure variables
    pub set: bool,
    pub max_depth: u32,
    pub max_forms: usize,
    /// include the identifiers the bundled macro templates introduce (x temp atom-key) in the name pool
    pub template_names: bool,
    /// avoid constructs known to hit recorded findings (counted by the caller)
    pub avoid: Avoid,
    /// top-level expressions never evaluate to procedures (their printed form is not in question anywhere)
    pub printable_exprs: bool,
}

#[derive(Clone, Debug, Default)]
pub struct Avoid {
    /// (let () ...), (let* () ...), (when c) with a single body form ... : empty ellipsis runs
    pub empty_ellipsis: bool,
    /// user variables named like template identifiers inside or/cond/case
    pub template_capture: bool,
}

impl GenCfg {
    pub fn core(depth: u32) -> GenCfg {
        GenCfg { derived: false, ticks: true, tick_rate: 3, set: false, max_depth: depth, max_forms: 7, template_names: false, avoid: Avoid::default(), printable_exprs: false }
    }
    pub fn derived(depth: u32) -> GenCfg {
        GenCfg { derived: true, ticks: true, tick_rate: 8, set: false, max_depth: depth, max_forms: 5, template_names: true, avoid: Avoid::default(), printable_exprs: false }
    }
}

pub const VAR_NAMES: &[&str] = &["a", "b", "c", "n", "m", "y"];
pub const TEMPLATE_NAMES: &[&str] = &["x", "temp", "atom-key"];
pub const FN_NAMES: &[&str] = &["f", "g", "h", "k"];
pub const SYMS: &[&str] = &["p", "q", "r"];

#[derive(Clone, Debug, Default)]
pub struct Labels {
    pub closures_escaping: u32,
    pub rest_with_extra: u32,
    pub internal_defs: u32,
    pub internal_def_forward: u32,
    pub let_over_lambda: u32,
    pub closure_per_round: u32,
    pub closures_in_data: u32,
    pub redefinitions: u32,
    pub builtin_shadowed: u32,
    pub one_armed_if: u32,
    pub tail_statements: u32,
    pub applies: u32,
    pub shadowings: u32,
    pub derived: u32,
    pub skipped_subforms: u32,
    pub max_depth: u32,
    pub higher_order: u32,
    pub recursion: u32,
    pub sets: u32,
    pub derived_kinds: Vec<&'static str>,
}

pub struct Gen<'a, 'b> {
    pub ch: &'a mut Chooser<'b>,
    pub cfg: GenCfg,
    pub next_tick: i32,
    pub labels: Labels,
}

type Scope = Vec<(Name, Ty)>;

fn lookup<'s>(scope: &'s Scope, name: &str) -> Option<&'s Ty> {
    scope.iter().rev().find(|(n, _)| n == name).map(|(_, t)| t)
}

/// names whose innermost binding has the given type
fn vars_of<'s>(scope: &'s Scope, ty: &Ty) -> Vec<&'s str> {
    let mut out: Vec<&str> = vec![];
    for (n, _) in scope.iter() {
        if out.contains(&n.as_str()) {
            continue;
        }
        if lookup(scope, n) == Some(ty) {
            out.push(n.as_str());
        }
    }
    out
}

/// function-typed variables (innermost binding) whose result type is `ret`
fn fns_returning<'s>(scope: &'s Scope, ret: &Ty) -> Vec<(&'s str, &'s Ty)> {
    let mut out: Vec<(&str, &Ty)> = vec![];
    for (n, _) in scope.iter() {
        if out.iter().any(|(m, _)| *m == n.as_str()) {
            continue;
        }
        if let Some(t @ Ty::Fn(_, _, r)) = lookup(scope, n) {
            if **r == *ret {
                out.push((n.as_str(), t));
            }
        }
    }
    out
}

impl<'a, 'b> Gen<'a, 'b> {
    pub fn new(ch: &'a mut Chooser<'b>, cfg: GenCfg) -> Gen<'a, 'b> {
        Gen { ch, cfg, next_tick: 1, labels: Labels::default() }
    }

    fn var_pool(&self) -> Vec<&'static str> {
        let mut v: Vec<&'static str> = VAR_NAMES.to_vec();
        if self.cfg.template_names && !self.cfg.avoid.template_capture {
            v.extend_from_slice(TEMPLATE_NAMES);
        }
        v
    }

    fn fresh_var(&mut self, scope: &Scope) -> Name {
        let pool = self.var_pool();
        let n = *self.ch.pick(&pool);
        if lookup(scope, n).is_some() {
            self.labels.shadowings += 1;
        }
        n.to_string()
    }
    fn fresh_fn(&mut self, scope: &Scope) -> Name {
        let n = *self.ch.pick(FN_NAMES);
        if lookup(scope, n).is_some() {
            self.labels.shadowings += 1;
        }
        n.to_string()
    }

    pub fn gen_simple_ty(&mut self) -> Ty {
        match self.ch.weighted(&[6, 2, 1, 3]) {
            0 => Ty::Int,
            1 => Ty::Bool,
            2 => Ty::Sym,
            _ => Ty::List,
        }
    }

    pub fn gen_fn_ty(&mut self, max_order: u32) -> Ty {
        let n = self.ch.weighted(&[1, 4, 4, 2, 1, 1]);
        let mut args = vec![];
        for _ in 0..n {
            if max_order > 1 && self.ch.chance(1, 5) {
                args.push(self.gen_fn_ty(max_order - 1));
            } else {
                args.push(self.gen_simple_ty());
            }
        }
        let rest = self.ch.chance(1, 4);
        let ret = if max_order > 1 && self.ch.chance(1, 6) { self.gen_fn_ty(max_order - 1) } else { self.gen_simple_ty() };
        Ty::Fn(args, rest, Box::new(ret))
    }

    pub fn gen_any_ty(&mut self) -> Ty {
        if self.ch.chance(1, 6) {
            self.gen_fn_ty(2)
        } else {
            self.gen_simple_ty()
        }
    }

    fn maybe_tick(&mut self, e: Expr) -> Expr {
        if self.cfg.ticks && self.ch.chance(self.cfg.tick_rate, 16) {
            let k = self.next_tick;
            self.next_tick += 1;
            Expr::Tick(k, Box::new(e))
        } else {
            e
        }
    }

    fn leaf(&mut self, ty: &Ty, scope: &Scope) -> Expr {
        let vars = vars_of(scope, ty);
        if !vars.is_empty() && self.ch.chance(1, 2) {
            let n = *self.ch.pick(&vars);
            return var(n);
        }
        match ty {
            Ty::Int => Expr::Int(match self.ch.below(4) {
                0 => self.ch.range(0, 3) as i32,
                1 => self.ch.range(-9, 20) as i32,
                _ => self.ch.range(0, 9) as i32,
            }),
            Ty::Bool => Expr::Bool(self.ch.chance(1, 2)),
            Ty::Sym => Expr::Quote(Datum::Sym(self.ch.pick(SYMS).to_string())),
            Ty::List => {
                let n = self.ch.below(4);
                Expr::Quote(Datum::List((0..n).map(|_| Datum::Int(self.ch.range(0, 9) as i32)).collect(), None))
            }
            Ty::Fn(args, rest, ret) => {
                // eta-expanded primitives where the type fits, else a lambda with a leaf body
                if !*rest {
                    let prim: Option<&[&str]> = match (args.as_slice(), &**ret) {
                        ([Ty::Int, Ty::Int], Ty::Int) => Some(&["+", "-", "*", "max", "min"]),
                        ([Ty::Int], Ty::Int) => Some(&["abs", "-"]),
                        ([Ty::Int, Ty::Int], Ty::Bool) => Some(&["<", "=", ">=", "eqv?"]),
                        ([Ty::List], Ty::Bool) => Some(&["null?", "pair?", "list?"]),
                        ([Ty::Int, Ty::List], Ty::List) => Some(&["cons"]),
                        ([Ty::List, Ty::List], Ty::List) => Some(&["append"]),
                        ([Ty::Bool], Ty::Bool) => Some(&["not"]),
                        _ => None,
                    };
                    if let Some(ps) = prim {
                        if self.ch.chance(1, 3) {
                            return var(self.ch.pick_s(ps));
                        }
                    }
                } else if args.is_empty() {
                    let prim: Option<&[&str]> = match &**ret {
                        Ty::Int => Some(&["+", "*"]),
                        Ty::List => Some(&["list"]),
                        _ => None,
                    };
                    if let Some(ps) = prim {
                        if self.ch.chance(1, 3) {
                            return var(self.ch.pick_s(ps));
                        }
                    }
                }
                self.gen_lambda(args, *rest, ret, scope, 0)
            }
        }
    }

    fn gen_formals(&mut self, args: &[Ty], rest: bool, scope: &Scope) -> (Formals, Scope) {
        let mut inner = scope.clone();
        let mut fixed: Vec<Name> = vec![];
        for t in args {
            // parameter names must be distinct within one formals list
            let mut name;
            let mut tries = 0;
            loop {
                name = if matches!(t, Ty::Fn(..)) { self.fresh_fn(scope) } else { self.fresh_var(scope) };
                if !fixed.contains(&name) {
                    break;
                }
                tries += 1;
                if tries > 8 {
                    name = format!("p{}", fixed.len());
                    break;
                }
            }
            fixed.push(name.clone());
            inner.push((name, t.clone()));
        }
        let rest_name = if rest {
            let mut r = "rest".to_string();
            if self.ch.chance(1, 3) {
                let cand = self.fresh_var(scope);
                if !fixed.contains(&cand) {
                    r = cand;
                }
            }
            inner.push((r.clone(), Ty::List));
            Some(r)
        } else {
            None
        };
        (Formals { fixed, rest: rest_name }, inner)
    }

    fn gen_lambda(&mut self, args: &[Ty], rest: bool, ret: &Ty, scope: &Scope, fuel: u32) -> Expr {
        let (formals, inner) = self.gen_formals(args, rest, scope);
        let body = self.gen_body_of(ret, &inner, fuel, args.is_empty() && !rest);
        Expr::Lambda(formals, Box::new(body))
    }

    /// a procedure body: internal definitions, statements, result expression
    fn gen_body(&mut self, ret: &Ty, scope: &Scope, fuel: u32) -> Body {
        self.gen_body_of(ret, scope, fuel, false)
    }

    fn gen_body_of(&mut self, ret: &Ty, scope: &Scope, fuel: u32, thunk: bool) -> Body {
        let mut inner = scope.clone();
        let mut defs = vec![];
        if fuel > 0 {
            let mut n_defs = self.ch.weighted(&[6, 3, 2]);
            if thunk && n_defs == 0 && self.ch.chance(1, 2) {
                n_defs = 1;
            }
            // names and types first: lambdas may refer to later definitions
            let mut planned: Vec<(Name, Ty)> = vec![];
            // in a parameterless procedure with several definitions, often: the first definition is a closure made
            // inside a frame of its own ("let over lambda") that uses the later definitions
            let lol_first = thunk && n_defs >= 2 && self.ch.chance(1, 2);
            for k in 0..n_defs {
                let mut ty = if lol_first && k == 0 {
                    // a thunk answering the definition that follows it
                    Ty::Fn(vec![], false, Box::new(Ty::Int))
                } else if self.ch.chance(2, 5) && !(lol_first && k == 1) {
                    self.gen_fn_ty(1)
                } else {
                    self.gen_simple_ty()
                };
                let mut name = if matches!(ty, Ty::Fn(..)) { self.fresh_fn(&inner) } else { self.fresh_var(&inner) };
                // in a parameterless procedure, prefer a name (and type) that is already bound outside: the internal
                // definition must shadow it for the body only
                if thunk && !(lol_first && k == 0) && self.ch.chance(2, 3) {
                    let outer: Vec<(Name, Ty)> = scope.iter().filter(|(_, t)| !matches!(t, Ty::Fn(..))).cloned().collect();
                    if !outer.is_empty() {
                        let (n, t) = outer[self.ch.below(outer.len())].clone();
                        if lookup(scope, &n) == Some(&t) {
                            name = n;
                            ty = t;
                            self.labels.shadowings += 1;
                        }
                    }
                }
                if planned.iter().any(|(n, _)| *n == name) {
                    continue;
                }
                planned.push((name, ty));
            }
            // reference discipline among procedure-valued internal definitions (no cycles): either every
            // lambda may call the later ones, or every lambda may call the earlier ones
            if lol_first && planned.len() >= 2 && matches!(planned[0].1, Ty::Fn(..)) {
                planned[0].1 = Ty::Fn(vec![], false, Box::new(planned[1].1.clone()));
            }
            let forward = self.ch.chance(1, 2) || lol_first;
            for (i, (name, ty)) in planned.iter().enumerate() {
                self.labels.internal_defs += 1;
                let early_fns: Vec<Name> =
                    if forward { planned.iter().take(i).filter(|p| matches!(p.1, Ty::Fn(..))).map(|p| p.0.clone()).collect() } else { vec![] };
                let value = match ty {
                    Ty::Fn(a, r, rt) => {
                        // the whole set of internal definitions is visible inside a lambda, except the one being
                        // defined (no unguarded self-recursion)
                        let mut s = inner.clone();
                        if forward {
                            // earlier procedure-valued definitions are hidden, later ones visible
                            for (j, p) in planned.iter().enumerate() {
                                if j < i && matches!(p.1, Ty::Fn(..)) {
                                    s.retain(|(n, _)| *n != p.0);
                                }
                            }
                            for (j, p) in planned.iter().enumerate() {
                                if j > i {
                                    s.push(p.clone());
                                }
                            }
                            if planned.len() > i + 1 {
                                self.labels.internal_def_forward += 1;
                            }
                        }
                        s.retain(|(n, _)| n != name);
                        if self.ch.chance(1, 3) || (lol_first && i == 0) {
                            // "let over lambda": the closure is created inside a frame opened while this definition
                            // is being evaluated; it still sees the whole set of internal definitions of the body
                            let now: Scope = inner.iter().filter(|(n, _)| n != name && !early_fns.contains(n)).cloned().collect();
                            let kt = self.gen_simple_ty();
                            let kn = self.fresh_var(&s);
                            let kv = self.gen_expr(&kt, &now, fuel - 1);
                            s.push((kn.clone(), kt));
                            let lam = if lol_first && i == 0 && planned.len() >= 2 {
                                let later = self.maybe_tick(var(&planned[1].0));
                                Expr::Lambda(Formals { fixed: vec![], rest: None }, body1(later))
                            } else {
                                self.gen_lambda(a, *r, rt, &s, fuel - 1)
                            };
                            self.labels.let_over_lambda += 1;
                            match self.ch.below(3) {
                                0 => Expr::Let(vec![(kn, kv)], body1(lam)),
                                1 => Expr::App(Box::new(Expr::Lambda(Formals { fixed: vec![kn], rest: None }, body1(lam))), vec![kv]),
                                _ => Expr::LetStar(vec![(kn, kv)], body1(lam)),
                            }
                        } else {
                            self.gen_lambda(a, *r, rt, &s, fuel - 1)
                        }
                    }
                    t => {
                        // R7RS: the value of an internal definition must not refer to the variable being defined
                        // (nor, under the forward discipline, call an earlier procedure that may use a later definition)
                        let s: Scope = inner.iter().filter(|(n, _)| n != name && !early_fns.contains(n)).cloned().collect();
                        self.gen_expr(t, &s, fuel - 1)
                    }
                };
                let sugar = matches!(value, Expr::Lambda(..)) && self.ch.chance(1, 2);
                defs.push(Def { name: name.clone(), value, sugar });
                inner.push((name.clone(), ty.clone()));
            }
        }
        let mut exprs = vec![];
        if let Some(d) = defs.first() {
            if defs.len() >= 2 && matches!(&d.value, Expr::Let(..) | Expr::LetStar(..) | Expr::App(..)) && matches!(lookup(&inner, &d.name), Some(Ty::Fn(a, false, _)) if a.is_empty()) {
                // call the let-over-lambda thunk once all definitions are in place
                let call = Expr::App(Box::new(var(&d.name)), vec![]);
                let k = self.next_tick;
                self.next_tick += 1;
                exprs.push(if self.cfg.ticks { Expr::Tick(k, Box::new(call)) } else { call });
            }
        }
        if fuel > 0 {
            let n_stmts = self.ch.weighted(&[8, 2, 1]);
            for _ in 0..n_stmts {
                exprs.push(self.gen_statement(&inner, fuel - 1));
            }
        }
        exprs.push(self.gen_expr(ret, &inner, fuel));
        Body { defs, exprs }
    }

    /// an expression evaluated for effect only (its value is discarded)
    fn gen_statement(&mut self, scope: &Scope, fuel: u32) -> Expr {
        if fuel > 0 && self.ch.chance(1, 6) {
            // the statement in tail position of an immediately applied thunk (its value, possibly unspecified, is dropped)
            let mut exprs = vec![];
            if self.ch.chance(1, 3) {
                exprs.push(self.gen_statement(scope, fuel - 1));
            }
            let last = if self.ch.chance(1, 2) {
                let c = self.gen_test(scope, fuel - 1);
                let c = if self.cfg.ticks && !matches!(c, Expr::Tick(..)) {
                    let k = self.next_tick;
                    self.next_tick += 1;
                    Expr::Tick(k, Box::new(c))
                } else {
                    c
                };
                let a = self.gen_statement(scope, fuel - 1);
                self.labels.one_armed_if += 1;
                Expr::If(Box::new(c), Box::new(a), None)
            } else {
                self.gen_statement(scope, fuel - 1)
            };
            exprs.push(last);
            self.labels.tail_statements += 1;
            return Expr::App(Box::new(Expr::Lambda(Formals { fixed: vec![], rest: None }, Box::new(Body { defs: vec![], exprs }))), vec![]);
        }
        if self.cfg.set && self.ch.chance(1, 2) {
            let mut cands: Vec<(String, Ty)> = vec![];
            for (n, _) in scope.iter() {
                if let Some(t) = lookup(scope, n) {
                    if !matches!(t, Ty::Fn(..)) && !cands.iter().any(|(m, _)| m == n) {
                        cands.push((n.clone(), t.clone()));
                    }
                }
            }
            if !cands.is_empty() {
                let (n, t) = cands[self.ch.below(cands.len())].clone();
                self.labels.sets += 1;
                let v = self.gen_expr(&t, scope, fuel);
                return Expr::Set(n, Box::new(v));
            }
        }
        if self.cfg.derived && fuel > 0 {
            match self.ch.below(5) {
                0 => {
                    let c = self.gen_test(scope, fuel - 1);
                    let body = self.gen_seq_any(scope, fuel - 1, 2);
                    self.note_derived("when");
                    return Expr::When(Box::new(c), body);
                }
                1 => {
                    let c = self.gen_test(scope, fuel - 1);
                    let body = self.gen_seq_any(scope, fuel - 1, 2);
                    self.note_derived("unless");
                    return Expr::Unless(Box::new(c), body);
                }
                2 => {
                    // cond without else
                    let n = 1 + self.ch.below(3);
                    let mut clauses = vec![];
                    for _ in 0..n {
                        let ty = self.gen_simple_ty();
                        clauses.push(self.gen_clause(&ty, scope, fuel - 1));
                    }
                    self.note_derived("cond");
                    return Expr::Cond(clauses, None);
                }
                _ => {}
            }
        }
        let ty = self.gen_simple_ty();
        let e = self.gen_expr(&ty, scope, fuel);
        // a statement without an observable effect is pointless: make sure it ticks
        if self.cfg.ticks {
            let k = self.next_tick;
            self.next_tick += 1;
            Expr::Tick(k, Box::new(e))
        } else {
            e
        }
    }

    fn note_derived(&mut self, k: &'static str) {
        self.labels.derived += 1;
        if !self.labels.derived_kinds.contains(&k) {
            self.labels.derived_kinds.push(k);
        }
    }

    fn gen_seq_any(&mut self, scope: &Scope, fuel: u32, min: usize) -> Vec<Expr> {
        // `min` = 2 avoids the (when c e) shape whose second ellipsis would be empty, when asked to
        let lo = if self.cfg.avoid.empty_ellipsis { min } else { 1 };
        let n = lo + self.ch.below(2);
        (0..n).map(|_| self.gen_statement(scope, fuel)).collect()
    }

    /// an expression in test position: any type, truthiness well defined
    fn gen_test(&mut self, scope: &Scope, fuel: u32) -> Expr {
        if self.cfg.derived && fuel > 0 && self.ch.chance(1, 3) {
            let n = self.ch.below(4);
            let mut es = vec![];
            for _ in 0..n {
                let ty = self.gen_simple_ty();
                es.push(self.gen_expr(&ty, scope, fuel - 1));
            }
            return if self.ch.chance(1, 2) {
                self.note_derived("and");
                self.maybe_tick(Expr::And(es))
            } else {
                self.note_derived("or");
                self.maybe_tick(Expr::Or(es))
            };
        }
        let ty = match self.ch.weighted(&[5, 2, 1, 1, 1]) {
            0 => Ty::Bool,
            1 => Ty::Int,
            2 => Ty::List,
            3 => Ty::Sym,
            _ => self.gen_fn_ty(1),
        };
        self.gen_expr(&ty, scope, fuel)
    }

    fn gen_clause(&mut self, ty: &Ty, scope: &Scope, fuel: u32) -> Clause {
        match self.ch.weighted(&[6, 1, 2]) {
            0 => {
                let t = self.gen_test(scope, fuel);
                let mut es = vec![];
                if self.ch.chance(1, 4) {
                    es.push(self.gen_statement(scope, fuel));
                }
                es.push(self.gen_expr(ty, scope, fuel));
                Clause::Then(t, es)
            }
            1 => {
                // (test): the value of the test is the result, so the test must have the result type or be false
                let e = self.gen_expr(ty, scope, fuel);
                Clause::Test(e)
            }
            _ => {
                // (test => receiver): receiver takes the test's value
                let tt = self.gen_simple_ty();
                let t = self.gen_expr(&tt, scope, fuel);
                let r = self.gen_expr(&Ty::Fn(vec![tt], false, Box::new(ty.clone())), scope, fuel);
                Clause::Arrow(t, r)
            }
        }
    }

    fn gen_args(&mut self, args: &[Ty], rest: bool, scope: &Scope, fuel: u32) -> Vec<Expr> {
        let mut out: Vec<Expr> = args.iter().map(|t| self.gen_expr(t, scope, fuel)).collect();
        if rest {
            let extra = self.ch.below(4);
            if extra > 0 {
                self.labels.rest_with_extra += 1;
            }
            for _ in 0..extra {
                out.push(self.gen_expr(&Ty::Int, scope, fuel));
            }
        }
        out
    }

    /// (apply f lead... lst): the trailing arguments must all be integers to be passed as a list
    fn as_apply(&mut self, f: Expr, args: Vec<Expr>, arg_tys: &[Ty], scope: &Scope, fuel: u32) -> Option<Expr> {
        // number of trailing arguments that are Int-typed
        let mut tail_ints = 0;
        for i in (0..args.len()).rev() {
            let is_int = if i < arg_tys.len() { arg_tys[i] == Ty::Int } else { true };
            if is_int {
                tail_ints += 1;
            } else {
                break;
            }
        }
        let k = self.ch.below(tail_ints + 1);
        let lead_n = args.len() - k;
        let mut lead = args;
        let tail: Vec<Expr> = lead.split_off(lead_n);
        let _ = (scope, fuel);
        let last = if tail.iter().all(|e| matches!(e, Expr::Int(_))) && self.ch.chance(1, 2) {
            Expr::Quote(Datum::List(
                tail.iter()
                    .map(|e| match e {
                        Expr::Int(i) => Datum::Int(*i),
                        _ => unreachable!(),
                    })
                    .collect(),
                None,
            ))
        } else {
            app("list", tail)
        };
        self.labels.applies += 1;
        Some(Expr::Apply(Box::new(f), lead, Box::new(last)))
    }

    pub fn gen_expr(&mut self, ty: &Ty, scope: &Scope, fuel: u32) -> Expr {
        let depth = self.cfg.max_depth.saturating_sub(fuel);
        if depth > self.labels.max_depth {
            self.labels.max_depth = depth;
        }
        if fuel == 0 {
            let l = self.leaf(ty, scope);
            return self.maybe_tick(l);
        }
        let e = self.gen_compound(ty, scope, fuel);
        self.maybe_tick(e)
    }

    fn gen_compound(&mut self, ty: &Ty, scope: &Scope, fuel: u32) -> Expr {
        let f1 = fuel - 1;
        // weights: leaf, if, lambda-application, variable-application, typed primitive, derived, fn-special
        let callable = fns_returning(scope, ty);
        let w_call = if callable.is_empty() { 0 } else { 6 };
        let w_derived = if self.cfg.derived { 8 } else { 0 };
        let w_fn = if matches!(ty, Ty::Fn(..)) { 8 } else { 0 };
        match self.ch.weighted(&[3, 3, 3, w_call, 5, w_derived, w_fn]) {
            0 => self.leaf(ty, scope),
            1 => {
                let c = self.gen_test(scope, f1);
                let a = self.gen_expr(ty, scope, f1);
                let b = self.gen_expr(ty, scope, f1);
                self.labels.skipped_subforms += 1;
                Expr::If(Box::new(c), Box::new(a), Some(Box::new(b)))
            }
            2 => {
                // immediate application of a lambda
                let fty = {
                    let n = self.ch.weighted(&[1, 4, 3, 2, 1, 1]);
                    let args: Vec<Ty> = (0..n).map(|_| if self.ch.chance(1, 6) { self.gen_fn_ty(1) } else { self.gen_simple_ty() }).collect();
                    (args, self.ch.chance(1, 4))
                };
                if fty.0.iter().any(|t| matches!(t, Ty::Fn(..))) {
                    self.labels.higher_order += 1;
                }
                let lam = self.gen_lambda(&fty.0, fty.1, ty, scope, f1);
                let args = self.gen_args(&fty.0, fty.1, scope, f1);
                if self.ch.chance(1, 5) {
                    if let Some(e) = self.as_apply(lam.clone(), args.clone(), &fty.0, scope, f1) {
                        return e;
                    }
                }
                Expr::App(Box::new(lam), args)
            }
            3 => {
                let (name, fty) = {
                    let (n, t) = callable[self.ch.below(callable.len())];
                    (n.to_string(), t.clone())
                };
                if let Ty::Fn(args, rest, _) = &fty {
                    if args.iter().any(|t| matches!(t, Ty::Fn(..))) {
                        self.labels.higher_order += 1;
                    }
                    let argv = self.gen_args(args, *rest, scope, f1);
                    if self.ch.chance(1, 4) {
                        if let Some(e) = self.as_apply(var(&name), argv.clone(), args, scope, f1) {
                            return e;
                        }
                    }
                    Expr::App(Box::new(var(&name)), argv)
                } else {
                    unreachable!()
                }
            }
            4 => self.gen_prim(ty, scope, f1),
            5 => self.gen_derived(ty, scope, f1),
            _ => {
                if let Ty::Fn(args, rest, ret) = ty {
                    // a closure maker called immediately: the closure escapes its defining call
                    if self.ch.chance(1, 2) {
                        let cap_ty = self.gen_simple_ty();
                        let (formals, inner) = self.gen_formals(&[cap_ty.clone()], false, scope);
                        let inner_lam = self.gen_lambda(args, *rest, ret, &inner, f1);
                        let maker = Expr::Lambda(formals, Box::new(Body { defs: vec![], exprs: vec![inner_lam] }));
                        let arg = self.gen_expr(&cap_ty, scope, f1);
                        self.labels.closures_escaping += 1;
                        Expr::App(Box::new(maker), vec![arg])
                    } else {
                        self.gen_lambda(args, *rest, ret, scope, f1)
                    }
                } else {
                    self.leaf(ty, scope)
                }
            }
        }
    }

    fn gen_prim(&mut self, ty: &Ty, scope: &Scope, fuel: u32) -> Expr {
        match ty {
            Ty::Int => match self.ch.below(8) {
                0 | 1 => {
                    let (a, b) = (self.gen_expr(&Ty::Int, scope, fuel), self.gen_expr(&Ty::Int, scope, fuel));
                    app("+", vec![a, b])
                }
                2 => {
                    let (a, b) = (self.gen_expr(&Ty::Int, scope, fuel), self.gen_expr(&Ty::Int, scope, fuel));
                    app("-", vec![a, b])
                }
                3 => {
                    let a = self.gen_expr(&Ty::Int, scope, fuel);
                    app("*", vec![a, Expr::Int(self.ch.range(-2, 3) as i32)])
                }
                4 => {
                    let l = self.gen_expr(&Ty::List, scope, fuel);
                    app("fold-left", vec![var("+"), Expr::Int(0), l])
                }
                5 => {
                    let l = self.gen_expr(&Ty::List, scope, fuel);
                    self.labels.applies += 1;
                    Expr::Apply(Box::new(var("+")), vec![], Box::new(l))
                }
                6 => {
                    let lists = vars_of(scope, &Ty::List);
                    if lists.is_empty() {
                        let a = self.gen_expr(&Ty::Int, scope, fuel);
                        app("abs", vec![a])
                    } else {
                        let v = self.ch.pick(&lists).to_string();
                        Expr::If(Box::new(app("null?", vec![var(&v)])), Box::new(Expr::Int(0)), Some(Box::new(app("car", vec![var(&v)]))))
                    }
                }
                _ => {
                    let n = self.ch.below(4);
                    let args = (0..n).map(|_| self.gen_expr(&Ty::Int, scope, fuel)).collect();
                    app("+", args)
                }
            },
            Ty::Bool => match self.ch.below(6) {
                0 => {
                    let (a, b) = (self.gen_expr(&Ty::Int, scope, fuel), self.gen_expr(&Ty::Int, scope, fuel));
                    app(*self.ch.pick(&["=", "<", ">", "<=", ">="]), vec![a, b])
                }
                1 => {
                    let l = self.gen_expr(&Ty::List, scope, fuel);
                    app(*self.ch.pick(&["null?", "pair?", "list?"]), vec![l])
                }
                2 => {
                    let a = self.gen_expr(&Ty::Bool, scope, fuel);
                    app("not", vec![a])
                }
                3 => {
                    let (a, b) = (self.gen_expr(&Ty::Sym, scope, fuel), self.gen_expr(&Ty::Sym, scope, fuel));
                    app(*self.ch.pick(&["eqv?", "eq?", "equal?"]), vec![a, b])
                }
                4 => {
                    let t = self.gen_any_ty();
                    let a = self.gen_expr(&t, scope, fuel);
                    app(*self.ch.pick(&["procedure?", "number?", "symbol?", "boolean?", "vector?"]), vec![a])
                }
                _ => {
                    let (a, b) = (self.gen_expr(&Ty::List, scope, fuel), self.gen_expr(&Ty::List, scope, fuel));
                    app("equal?", vec![a, b])
                }
            },
            Ty::Sym => {
                let c = self.gen_test(scope, fuel);
                let (a, b) = (self.leaf(&Ty::Sym, scope), self.leaf(&Ty::Sym, scope));
                Expr::If(Box::new(c), Box::new(a), Some(Box::new(b)))
            }
            Ty::List => match self.ch.below(7) {
                0 => {
                    let (a, l) = (self.gen_expr(&Ty::Int, scope, fuel), self.gen_expr(&Ty::List, scope, fuel));
                    app("cons", vec![a, l])
                }
                1 => {
                    let n = self.ch.below(4);
                    let args = (0..n).map(|_| self.gen_expr(&Ty::Int, scope, fuel)).collect();
                    app("list", args)
                }
                2 => {
                    let n = self.ch.below(4);
                    let args = (0..n).map(|_| self.gen_expr(&Ty::List, scope, fuel)).collect();
                    app("append", args)
                }
                3 => {
                    let f = self.gen_expr(&Ty::Fn(vec![Ty::Int], false, Box::new(Ty::Int)), scope, fuel);
                    let l = self.gen_expr(&Ty::List, scope, fuel);
                    self.labels.higher_order += 1;
                    app("map", vec![f, l])
                }
                4 => {
                    let lists = vars_of(scope, &Ty::List);
                    if lists.is_empty() {
                        self.leaf(&Ty::List, scope)
                    } else {
                        let v = self.ch.pick(&lists).to_string();
                        Expr::If(Box::new(app("pair?", vec![var(&v)])), Box::new(app("cdr", vec![var(&v)])), Some(Box::new(var(&v))))
                    }
                }
                5 => {
                    let f = self.gen_expr(&Ty::Fn(vec![Ty::Int, Ty::List], false, Box::new(Ty::List)), scope, fuel);
                    let l = self.gen_expr(&Ty::List, scope, fuel);
                    self.labels.higher_order += 1;
                    app("fold-right", vec![f, Expr::Quote(Datum::List(vec![], None)), l])
                }
                _ => {
                    let k = self.ch.range(0, 3) as i32;
                    let a = self.gen_expr(&Ty::Int, scope, fuel);
                    app("make-list", vec![Expr::Int(k), a])
                }
            },
            Ty::Fn(args, rest, ret) => self.gen_lambda(args, *rest, ret, scope, fuel),
        }
    }

    fn gen_bindings(&mut self, scope: &Scope, fuel: u32, sequential: bool) -> (Vec<(Name, Expr)>, Scope) {
        let lo = if self.cfg.avoid.empty_ellipsis { 1 } else { 0 };
        let n = lo + self.ch.below(4 - lo);
        let mut inner = scope.clone();
        let mut bs: Vec<(Name, Expr)> = vec![];
        let mut added: Vec<(Name, Ty)> = vec![];
        for _ in 0..n {
            let ty = self.gen_any_ty();
            let name = if matches!(ty, Ty::Fn(..)) { self.fresh_fn(&inner) } else { self.fresh_var(&inner) };
            if !sequential && bs.iter().any(|(m, _)| *m == name) {
                continue;
            }
            let v = if sequential { self.gen_expr(&ty, &inner, fuel) } else { self.gen_expr(&ty, scope, fuel) };
            bs.push((name.clone(), v));
            if sequential {
                inner.push((name, ty));
            } else {
                added.push((name, ty));
            }
        }
        inner.extend(added);
        (bs, inner)
    }

    fn gen_datum_keys(&mut self, want: Option<&Datum>) -> Vec<Datum> {
        let n = 1 + self.ch.below(3);
        let mut keys: Vec<Datum> = (0..n)
            .map(|_| match self.ch.below(4) {
                3 => Datum::Sym(self.ch.pick_s(&["else", "=>", "if", "p"]).to_string()),
                0 => Datum::Sym(self.ch.pick(SYMS).to_string()),
                1 => Datum::Bool(self.ch.chance(1, 2)),
                _ => Datum::Int(self.ch.range(0, 5) as i32),
            })
            .collect();
        if let Some(d) = want {
            let i = self.ch.below(keys.len());
            keys[i] = d.clone();
        }
        keys
    }

    fn gen_derived(&mut self, ty: &Ty, scope: &Scope, fuel: u32) -> Expr {
        match self.ch.below(7) {
            0 => {
                let n = self.ch.below(3);
                let mut es: Vec<Expr> = (0..n).map(|_| self.gen_statement(scope, fuel)).collect();
                es.push(self.gen_expr(ty, scope, fuel));
                self.note_derived("begin");
                Expr::Begin(es)
            }
            1 => {
                let (bs, inner) = self.gen_bindings(scope, fuel, false);
                let body = self.gen_body(ty, &inner, fuel);
                self.note_derived("let");
                Expr::Let(bs, Box::new(body))
            }
            2 => {
                let (bs, inner) = self.gen_bindings(scope, fuel, true);
                let body = self.gen_body(ty, &inner, fuel);
                self.note_derived("let*");
                Expr::LetStar(bs, Box::new(body))
            }
            3 => {
                let n = 1 + self.ch.below(3);
                let clauses: Vec<Clause> = (0..n).map(|_| self.gen_clause(ty, scope, fuel)).collect();
                // the (test) clause may yield #f only by falling through, so an else clause keeps the type
                let mut els = vec![];
                if self.ch.chance(1, 4) {
                    els.push(self.gen_statement(scope, fuel));
                }
                els.push(self.gen_expr(ty, scope, fuel));
                self.labels.skipped_subforms += 1;
                self.note_derived("cond");
                Expr::Cond(clauses, Some(els))
            }
            4 => {
                // case over integers / symbols / booleans
                let key_ty = match self.ch.below(3) {
                    0 => Ty::Sym,
                    1 => Ty::Bool,
                    _ => Ty::Int,
                };
                // a compound key expression exercises the first rule of the bundled template
                let key = self.gen_expr(&key_ty, scope, fuel);
                let n = 1 + self.ch.below(3);
                let mut clauses = vec![];
                for _ in 0..n {
                    let keys = self.gen_datum_keys(None);
                    let body = if self.ch.chance(1, 4) {
                        let r = self.gen_expr(&Ty::Fn(vec![key_ty.clone()], false, Box::new(ty.clone())), scope, fuel);
                        CaseBody::Arrow(Box::new(r))
                    } else {
                        let mut es = vec![];
                        if self.ch.chance(1, 4) {
                            es.push(self.gen_statement(scope, fuel));
                        }
                        es.push(self.gen_expr(ty, scope, fuel));
                        CaseBody::Exprs(es)
                    };
                    clauses.push((keys, body));
                }
                let els = if self.ch.chance(1, 5) {
                    let r = self.gen_expr(&Ty::Fn(vec![key_ty.clone()], false, Box::new(ty.clone())), scope, fuel);
                    CaseBody::Arrow(Box::new(r))
                } else {
                    CaseBody::Exprs(vec![self.gen_expr(ty, scope, fuel)])
                };
                self.labels.skipped_subforms += 1;
                self.note_derived("case");
                Expr::Case(Box::new(key), clauses, Some(els))
            }
            5 if *ty == Ty::Bool => {
                let n = self.ch.below(4);
                let es: Vec<Expr> = (0..n).map(|_| self.gen_expr(&Ty::Bool, scope, fuel)).collect();
                if self.ch.chance(1, 2) {
                    self.note_derived("and");
                    Expr::And(es)
                } else {
                    self.note_derived("or");
                    Expr::Or(es)
                }
            }
            _ => {
                // (or #f ... e) and (and v ... e) keep the type of e when the earlier operands are known
                let e = self.gen_expr(ty, scope, fuel);
                if self.ch.chance(1, 2) {
                    self.note_derived("or");
                    let mut es = vec![];
                    for _ in 0..self.ch.below(3) {
                        es.push(self.maybe_tick(Expr::Bool(false)));
                    }
                    es.push(e);
                    // operands after a true value must be skipped
                    if !matches!(ty, Ty::Bool) && self.ch.chance(1, 2) {
                        es.push(self.gen_statement(scope, fuel));
                        self.labels.skipped_subforms += 1;
                    }
                    Expr::Or(es)
                } else {
                    self.note_derived("and");
                    let mut es = vec![];
                    for _ in 0..self.ch.below(3) {
                        let t = match self.ch.below(3) {
                            0 => Ty::Int,
                            1 => Ty::Sym,
                            _ => Ty::List,
                        };
                        es.push(self.gen_expr(&t, scope, fuel));
                    }
                    es.push(e);
                    Expr::And(es)
                }
            }
        }
    }

    /// a whole program: definitions and expressions at top level
    pub fn gen_program(&mut self) -> Vec<Form> {
        let mut scope: Scope = vec![];
        let mut forms = vec![];
        let n = 1 + self.ch.below(self.cfg.max_forms);
        let depth = self.cfg.max_depth;
        for _ in 0..n {
            match self.ch.weighted(&[3, 4, 2, 6, 1, 1, 1, 1, 1, 1, 1, 1]) {
                10 => {
                    // only #f is false: a test whose value is unspecified, the empty list, 0, an empty vector or a string
                    let k = forms.len();
                    let test = match self.ch.below(7) {
                        0 => Expr::If(Box::new(Expr::Bool(false)), Box::new(Expr::Bool(false)), None),
                        1 => app("for-each", vec![var("car"), Expr::Quote(Datum::List(vec![], None))]),
                        2 => app("vector-set!", vec![app("vector", vec![Expr::Int(1)]), Expr::Int(0), Expr::Int(2)]),
                        3 => Expr::Quote(Datum::List(vec![], None)),
                        4 => Expr::Int(0),
                        5 => app("vector", vec![]),
                        _ => Expr::Str(String::new()),
                    };
                    let yes_no = |t: Expr| Expr::If(Box::new(t), Box::new(Expr::Quote(Datum::Sym("yes".into()))), Some(Box::new(Expr::Quote(Datum::Sym("no".into())))));
                    let name = format!("truthy{}", k);
                    match self.ch.below(3) {
                        0 => forms.push(Form::Expr(yes_no(test))),
                        1 => {
                            // in tail position of a procedure body
                            forms.push(Form::Define(Def { name: name.clone(), value: Expr::Lambda(Formals { fixed: vec!["t".into()], rest: None }, body1(yes_no(var("t")))), sugar: self.ch.chance(1, 2) }));
                            forms.push(Form::Expr(app(&name, vec![test])));
                        }
                        _ => forms.push(Form::Expr(app("list", vec![yes_no(test.clone()), app("not", vec![test])]))),
                    }
                }
                11 => {
                    // an internal definition named like a parameter (fixed or rest) of its own procedure shadows the argument
                    let k = forms.len();
                    let name = format!("shadow-arg{}", k);
                    let v = self.ch.range(10, 99) as i32;
                    if self.ch.chance(1, 2) {
                        forms.push(Form::Define(Def {
                            name: name.clone(),
                            value: Expr::Lambda(
                                Formals { fixed: vec!["a".into(), "b".into()], rest: None },
                                Box::new(Body {
                                    defs: vec![
                                        Def { name: "get-b".into(), value: Expr::Lambda(Formals { fixed: vec![], rest: None }, body1(var("b"))), sugar: true },
                                        Def { name: "b".into(), value: Expr::Int(v), sugar: false },
                                    ],
                                    exprs: vec![app("list", vec![var("a"), var("b"), app("get-b", vec![])])],
                                }),
                            ),
                            sugar: self.ch.chance(1, 2),
                        }));
                        forms.push(Form::Expr(app(&name, vec![Expr::Int(1), Expr::Int(2)])));
                    } else {
                        forms.push(Form::Define(Def {
                            name: name.clone(),
                            value: Expr::Lambda(
                                Formals { fixed: vec!["a".into()], rest: Some("more".into()) },
                                Box::new(Body { defs: vec![Def { name: "more".into(), value: app("list", vec![Expr::Int(v), var("a")]), sugar: false }], exprs: vec![var("more")] }),
                            ),
                            sugar: true,
                        }));
                        forms.push(Form::Expr(app(&name, vec![Expr::Int(1), Expr::Int(2), Expr::Int(3)])));
                        forms.push(Form::Expr(app(&name, vec![Expr::Int(1)])));
                    }
                }
                8 => {
                    // data that are themselves quotations: ''a is the list (quote a), also inside lists and vector literals
                    let qd = |d: Datum| Datum::List(vec![Datum::Sym("quote".into()), d], None);
                    let a = Datum::Sym(self.ch.pick(SYMS).to_string());
                    let e = match self.ch.below(6) {
                        0 => Expr::Quote(qd(a)),
                        1 => app("car", vec![Expr::Quote(qd(a))]),
                        2 => app("cadr", vec![Expr::Quote(qd(Datum::Int(self.ch.range(0, 9) as i32)))]),
                        3 => app("vector-ref", vec![Expr::VecLit(vec![Datum::Int(1), qd(a)]), Expr::Int(1)]),
                        4 => app("car", vec![Expr::Quote(Datum::List(vec![qd(a), Datum::Int(2)], None))]),
                        _ => app("list", vec![Expr::Quote(qd(qd(a))), app("pair?", vec![Expr::Quote(qd(Datum::List(vec![], None)))])]),
                    };
                    forms.push(Form::Expr(e));
                }
                9 => {
                    // two closures of one lambda over different bindings; one hands over to the other in tail position
                    let k = forms.len();
                    let (mk, r1, r2) = (format!("mk-relay{}", k), format!("relay-a{}", k), format!("relay-b{}", k));
                    let (a, b) = (self.ch.range(0, 9) as i32, self.ch.range(10, 19) as i32);
                    let body = Expr::If(
                        Box::new(var("other")),
                        Box::new(Expr::App(Box::new(var("other")), vec![app("+", vec![var("x"), Expr::Int(1)]), Expr::Bool(false)])),
                        Some(Box::new(app("list", vec![var("x"), var("n")]))),
                    );
                    forms.push(Form::Define(Def {
                        name: mk.clone(),
                        value: Expr::Lambda(Formals { fixed: vec!["n".into()], rest: None }, body1(Expr::Lambda(Formals { fixed: vec!["x".into(), "other".into()], rest: None }, body1(body)))),
                        sugar: self.ch.chance(1, 2),
                    }));
                    forms.push(Form::Define(Def { name: r1.clone(), value: app(&mk, vec![Expr::Int(a)]), sugar: false }));
                    forms.push(Form::Define(Def { name: r2.clone(), value: app(&mk, vec![Expr::Int(b)]), sugar: false }));
                    forms.push(Form::Expr(app(&r1, vec![Expr::Int(1), var(&r2)])));
                    forms.push(Form::Expr(app(&r2, vec![Expr::Int(1), var(&r1)])));
                    forms.push(Form::Expr(app(&r1, vec![Expr::Int(5), Expr::Bool(false)])));
                    self.labels.closures_escaping += 1;
                }
                7 => {
                    // closures leave a body with internal definitions inside a list (the body ends in a variable, not in
                    // a call); they are called after the body has returned
                    let k = forms.len();
                    let (mk, ops) = (format!("mk-ops{}", k), format!("ops{}", k));
                    let s0 = self.ch.range(1, 9) as i32;
                    let lam0 = |body: Expr| Expr::Lambda(Formals { fixed: vec![], rest: None }, body1(body));
                    let lam1 = |body: Expr| Expr::Lambda(Formals { fixed: vec!["d".into()], rest: None }, body1(body));
                    let with_set = self.cfg.set;
                    let adder = if with_set {
                        Expr::Lambda(
                            Formals { fixed: vec!["d".into()], rest: None },
                            Box::new(Body { defs: vec![], exprs: vec![Expr::Set("k".into(), Box::new(app("+", vec![var("k"), var("d")]))), var("k")] }),
                        )
                    } else {
                        lam1(app("+", vec![var("k"), var("d")]))
                    };
                    let tail = if self.ch.chance(1, 2) { var("made") } else { Expr::If(Box::new(Expr::Bool(true)), Box::new(var("made")), Some(Box::new(Expr::Int(0)))) };
                    forms.push(Form::Define(Def {
                        name: mk.clone(),
                        value: Expr::Lambda(
                            Formals { fixed: vec!["s".into()], rest: None },
                            Box::new(Body {
                                defs: vec![
                                    Def { name: "k".into(), value: var("s"), sugar: false },
                                    Def { name: "get".into(), value: lam0(var("k")), sugar: true },
                                    Def { name: "add".into(), value: adder, sugar: true },
                                    Def { name: "made".into(), value: app("list", vec![var("get"), var("add")]), sugar: false },
                                ],
                                exprs: vec![tail],
                            }),
                        ),
                        sugar: self.ch.chance(1, 2),
                    }));
                    forms.push(Form::Define(Def { name: ops.clone(), value: app(&mk, vec![Expr::Int(s0)]), sugar: false }));
                    forms.push(Form::Expr(Expr::App(Box::new(app("car", vec![var(&ops)])), vec![])));
                    forms.push(Form::Expr(Expr::App(Box::new(app("cadr", vec![var(&ops)])), vec![Expr::Int(3)])));
                    forms.push(Form::Expr(Expr::App(Box::new(app("car", vec![var(&ops)])), vec![])));
                    // a call in tail position whose operator is an expression that is observed each time it is evaluated
                    if self.cfg.ticks {
                        let t = self.next_tick;
                        self.next_tick += 1;
                        let caller = format!("call-ops{}", k);
                        forms.push(Form::Define(Def {
                            name: caller.clone(),
                            value: Expr::Lambda(
                                Formals { fixed: vec!["d".into()], rest: None },
                                body1(Expr::App(Box::new(Expr::Tick(t, Box::new(app("cadr", vec![var(&ops)])))), vec![var("d")])),
                            ),
                            sugar: self.ch.chance(1, 2),
                        }));
                        forms.push(Form::Expr(app(&caller, vec![Expr::Int(1)])));
                        forms.push(Form::Expr(app("+", vec![Expr::Int(0), app(&caller, vec![Expr::Int(2)])])));
                    }
                    self.labels.closures_escaping += 1;
                    self.labels.closures_in_data += 1;
                }
                5 => {
                    // a top-level name defined twice with values that are alike but not the same: two closures of
                    // one lambda over different bindings, or 1 and 1.0
                    let k = forms.len();
                    let (mk, nm) = (format!("mk-add{}", k), format!("redef{}", k));
                    let (a, b) = (self.ch.range(0, 9) as i32, self.ch.range(10, 19) as i32);
                    if self.ch.chance(1, 4) {
                        // a closure made by a call (its frame is not the global one) reads a global variable and calls a
                        // global procedure; both are re-defined at top level between two calls of the same closure
                        let (gv, gf, user) = (format!("factor{}", k), format!("scale{}", k), format!("use{}", k));
                        forms.push(Form::Define(Def { name: gv.clone(), value: Expr::Int(a), sugar: false }));
                        forms.push(Form::Define(Def { name: gf.clone(), value: Expr::Lambda(Formals { fixed: vec!["x".into()], rest: None }, body1(app("*", vec![var("x"), Expr::Int(2)]))), sugar: self.ch.chance(1, 2) }));
                        forms.push(Form::Define(Def {
                            name: mk.clone(),
                            value: Expr::Lambda(
                                Formals { fixed: vec!["n".into()], rest: None },
                                body1(Expr::Lambda(Formals { fixed: vec!["x".into()], rest: None }, body1(app("list", vec![app("+", vec![var("x"), var("n"), var(&gv)]), app(&gf, vec![var("x")])])))),
                            ),
                            sugar: self.ch.chance(1, 2),
                        }));
                        forms.push(Form::Define(Def { name: user.clone(), value: app(&mk, vec![Expr::Int(1)]), sugar: false }));
                        forms.push(Form::Expr(app(&user, vec![Expr::Int(100)])));
                        forms.push(Form::Define(Def { name: gv.clone(), value: Expr::Int(b), sugar: false }));
                        forms.push(Form::Expr(app(&user, vec![Expr::Int(100)])));
                        forms.push(Form::Define(Def { name: gf.clone(), value: Expr::Lambda(Formals { fixed: vec!["x".into()], rest: None }, body1(app("*", vec![var("x"), Expr::Int(3)]))), sugar: self.ch.chance(1, 2) }));
                        forms.push(Form::Expr(app(&user, vec![Expr::Int(100)])));
                    } else if self.ch.chance(2, 3) {
                        forms.push(Form::Define(Def {
                            name: mk.clone(),
                            value: Expr::Lambda(
                                Formals { fixed: vec!["n".into()], rest: None },
                                body1(Expr::Lambda(Formals { fixed: vec!["x".into()], rest: None }, body1(app("+", vec![var("x"), var("n")])))),
                            ),
                            sugar: self.ch.chance(1, 2),
                        }));
                        forms.push(Form::Define(Def { name: nm.clone(), value: app(&mk, vec![Expr::Int(a)]), sugar: false }));
                        forms.push(Form::Expr(app(&nm, vec![Expr::Int(100)])));
                        forms.push(Form::Define(Def { name: nm.clone(), value: app(&mk, vec![Expr::Int(b)]), sugar: false }));
                        forms.push(Form::Expr(app(&nm, vec![Expr::Int(100)])));
                    } else if self.ch.chance(1, 2) {
                        forms.push(Form::Define(Def { name: nm.clone(), value: Expr::Int(a), sugar: false }));
                        forms.push(Form::Expr(var(&nm)));
                        forms.push(Form::Define(Def { name: nm.clone(), value: Expr::Real(format!("{}.0", a)), sugar: false }));
                        forms.push(Form::Expr(var(&nm)));
                    } else {
                        // a procedure that refers to itself by name, an old handle on it, and a second definition of the
                        // name: the old procedure's self-reference is the (re-defined) global variable
                        let saved = format!("saved{}", k);
                        let rec = Expr::If(
                            Box::new(app("<=", vec![var("n"), Expr::Int(0)])),
                            Box::new(Expr::Quote(Datum::Sym("first".into()))),
                            Some(Box::new(app(&nm, vec![app("-", vec![var("n"), Expr::Int(1)])]))),
                        );
                        forms.push(Form::Define(Def { name: nm.clone(), value: Expr::Lambda(Formals { fixed: vec!["n".into()], rest: None }, body1(rec)), sugar: self.ch.chance(1, 2) }));
                        forms.push(Form::Define(Def { name: saved.clone(), value: var(&nm), sugar: false }));
                        forms.push(Form::Expr(app(&saved, vec![Expr::Int(2)])));
                        forms.push(Form::Define(Def {
                            name: nm.clone(),
                            value: Expr::Lambda(Formals { fixed: vec!["n".into()], rest: None }, body1(Expr::Quote(Datum::Sym("second".into())))),
                            sugar: self.ch.chance(1, 2),
                        }));
                        forms.push(Form::Expr(app(&saved, vec![Expr::Int(3)])));
                        forms.push(Form::Expr(app(&saved, vec![Expr::Int(0)])));
                    }
                    self.labels.redefinitions += 1;
                }
                6 => {
                    // a builtin's name bound by a parameter, an internal definition or a top-level definition of the
                    // program: the innermost binding is the one that is called
                    let k = forms.len();
                    let nm = format!("shadow{}", k);
                    let (bname, own): (&str, Expr) = match self.ch.below(3) {
                        0 => ("not", Expr::Lambda(Formals { fixed: vec!["v".into()], rest: None }, body1(var("v")))),
                        1 => ("car", Expr::Lambda(Formals { fixed: vec!["v".into()], rest: None }, body1(Expr::Quote(Datum::Sym("own-car".into()))))),
                        _ => ("null?", Expr::Lambda(Formals { fixed: vec!["v".into()], rest: None }, body1(Expr::Bool(true)))),
                    };
                    let arg = Expr::Quote(Datum::List(vec![Datum::Int(1), Datum::Int(2)], None));
                    let test = app(bname, vec![arg.clone()]);
                    let body = Expr::If(Box::new(test.clone()), Box::new(app("list", vec![Expr::Quote(Datum::Sym("yes".into())), test.clone()])), Some(Box::new(Expr::Quote(Datum::Sym("no".into())))));
                    match self.ch.below(3) {
                        0 => {
                            // as a parameter
                            forms.push(Form::Define(Def {
                                name: nm.clone(),
                                value: Expr::Lambda(Formals { fixed: vec![bname.to_string()], rest: None }, body1(body)),
                                sugar: self.ch.chance(1, 2),
                            }));
                            forms.push(Form::Expr(app(&nm, vec![own])));
                        }
                        1 => {
                            // as an internal definition
                            forms.push(Form::Define(Def {
                                name: nm.clone(),
                                value: Expr::Lambda(
                                    Formals { fixed: vec![], rest: None },
                                    Box::new(Body { defs: vec![Def { name: bname.to_string(), value: own, sugar: false }], exprs: vec![body] }),
                                ),
                                sugar: true,
                            }));
                            forms.push(Form::Expr(app(&nm, vec![])));
                        }
                        _ => {
                            // in a let
                            forms.push(Form::Expr(Expr::App(Box::new(Expr::Lambda(Formals { fixed: vec![bname.to_string()], rest: None }, body1(body))), vec![own])));
                        }
                    }
                    self.labels.builtin_shadowed += 1;
                }
                4 => {
                    // a self tail call that collects one closure per round; each closure must keep the bindings of
                    // its own round: (define (c n acc) (if (<= n 0) acc (c (- n 1) (cons (lambda ...) acc))))
                    let name = format!("collect{}", forms.len());
                    let with_set = self.cfg.set && self.ch.chance(1, 2);
                    let closure = if with_set {
                        Expr::Lambda(
                            Formals { fixed: vec!["d".into()], rest: None },
                            Box::new(Body { defs: vec![], exprs: vec![Expr::Set("n".into(), Box::new(app("+", vec![var("n"), var("d")]))), var("n")] }),
                        )
                    } else {
                        Expr::Lambda(Formals { fixed: vec!["d".into()], rest: None }, body1(app("+", vec![var("n"), var("d")])))
                    };
                    let rec = Expr::App(Box::new(var(&name)), vec![app("-", vec![var("n"), Expr::Int(1)]), app("cons", vec![closure, var("acc")])]);
                    let body = Expr::If(Box::new(app("<=", vec![var("n"), Expr::Int(0)])), Box::new(var("acc")), Some(Box::new(rec)));
                    let lam = Expr::Lambda(Formals { fixed: vec!["n".into(), "acc".into()], rest: None }, body1(body));
                    forms.push(Form::Define(Def { name: name.clone(), value: lam, sugar: self.ch.chance(1, 2) }));
                    let k = 2 + self.ch.below(3) as i32;
                    let made = format!("made{}", forms.len());
                    forms.push(Form::Define(Def {
                        name: made.clone(),
                        value: Expr::App(Box::new(var(&name)), vec![Expr::Int(k), Expr::Quote(Datum::List(vec![], None))]),
                        sugar: false,
                    }));
                    // every closure applied, twice (the second round shows what the first one assigned)
                    for d in [self.ch.range(0, 5) as i32, 0] {
                        let caller = Expr::Lambda(Formals { fixed: vec!["t".into()], rest: None }, body1(Expr::App(Box::new(var("t")), vec![Expr::Int(d)])));
                        forms.push(Form::Expr(app("map", vec![caller, var(&made)])));
                    }
                    self.labels.closures_escaping += 1;
                    self.labels.closure_per_round += 1;
                }
                0 => {
                    let name = self.fresh_var(&scope);
                    // a redefinition keeps the type, so that procedures defined earlier stay well typed
                    let ty = match lookup(&scope, &name) {
                        Some(t) => t.clone(),
                        None => self.gen_simple_ty(),
                    };
                    let v = self.gen_expr(&ty, &scope, depth);
                    forms.push(Form::Define(Def { name: name.clone(), value: v, sugar: false }));
                    scope.push((name, ty));
                }
                1 => {
                    let ty = self.gen_fn_ty(3);
                    // top-level procedures are never redefined (a redefinition could close a call cycle)
                    let mut name = self.fresh_fn(&scope);
                    if lookup(&scope, &name).is_some() {
                        name = format!("{}{}", name, forms.len());
                    }
                    if let Ty::Fn(args, rest, ret) = &ty {
                        // the procedure may call itself only through the guarded recursion template below:
                        // an older binding of the same name must not be referenced from the new body
                        let without: Scope = scope.iter().filter(|(n, _)| *n != name).cloned().collect();
                        let lam = self.gen_lambda(args, *rest, ret, &without, depth.saturating_sub(1));
                        let sugar = self.ch.chance(1, 2);
                        forms.push(Form::Define(Def { name: name.clone(), value: lam, sugar }));
                    }
                    scope.push((name, ty));
                }
                2 => {
                    // recursion on a decreasing counter: (define (r n acc) (if (<= n 0) acc (r (- n 1) STEP)))
                    let name = format!("loop{}", forms.len());
                    let mut inner = scope.clone();
                    inner.push(("n".into(), Ty::Int));
                    inner.push(("acc".into(), Ty::Int));
                    let step = self.gen_expr(&Ty::Int, &inner, depth.saturating_sub(2).min(2));
                    let rec = Expr::App(Box::new(var(&name)), vec![app("-", vec![var("n"), Expr::Int(1)]), step]);
                    let body = Expr::If(Box::new(app("<=", vec![var("n"), Expr::Int(0)])), Box::new(var("acc")), Some(Box::new(rec)));
                    let lam = Expr::Lambda(Formals { fixed: vec!["n".into(), "acc".into()], rest: None }, body1(body));
                    forms.push(Form::Define(Def { name: name.clone(), value: lam, sugar: self.ch.chance(1, 2) }));
                    self.labels.recursion += 1;
                    // use it right away with a small counter
                    let k = self.ch.range(0, 8) as i32;
                    let init = self.gen_expr(&Ty::Int, &scope, 1);
                    forms.push(Form::Expr(Expr::App(Box::new(var(&name)), vec![Expr::Int(k), init])));
                    // calls from later forms pass arbitrary integers: the guard (<= n 0) keeps them terminating,
                    // and the counter is bounded by wrapping it: not exposed in scope
                }
                _ => {
                    let ty = if self.cfg.printable_exprs { self.gen_simple_ty() } else { self.gen_any_ty() };
                    let e = self.gen_expr(&ty, &scope, depth);
                    forms.push(Form::Expr(e));
                }
            }
        }
        forms
    }
}

// ------------------------------------------------------------------------------------
// equivalent spellings (metamorphic companions)

/// flip define-sugar on every definition that allows it (top level and internal)
pub fn flip_sugar_forms(forms: &[Form]) -> Vec<Form> {
    let id = |_: &Expr| -> Option<Expr> { None };
    forms
        .iter()
        .map(|f| match f {
            Form::Define(d) => Form::Define(Def { name: d.name.clone(), value: map_expr_inner(&d.value, &id, true), sugar: !d.sugar }),
            Form::Expr(e) => Form::Expr(map_expr_inner(e, &id, true)),
            Form::Raw(s) => Form::Raw(s.clone()),
            other => other.clone(),
        })
        .collect()
}

/// rewrite every call of a non-keyword operator (f a b) as (apply f (list a b))
pub fn calls_via_apply(forms: &[Form]) -> Vec<Form> {
    fn rw(e: &Expr) -> Option<Expr> {
        match e {
            Expr::App(f, args) => {
                let f2 = map_expr(f, &rw);
                let a2: Vec<Expr> = args.iter().map(|a| map_expr(a, &rw)).collect();
                Some(Expr::Apply(Box::new(f2), vec![], Box::new(app("list", a2))))
            }
            _ => None,
        }
    }
    forms
        .iter()
        .map(|f| match f {
            Form::Define(d) => Form::Define(Def { name: d.name.clone(), value: map_expr(&d.value, &rw), sugar: d.sugar }),
            Form::Expr(e) => Form::Expr(map_expr(e, &rw)),
            Form::Raw(s) => Form::Raw(s.clone()),
            other => other.clone(),
        })
        .collect()
}

fn map_body(b: &Body, f: &dyn Fn(&Expr) -> Option<Expr>, flip: bool) -> Body {
    Body {
        defs: b.defs.iter().map(|d| Def { name: d.name.clone(), value: map_expr_inner(&d.value, f, flip), sugar: if flip { !d.sugar } else { d.sugar } }).collect(),
        exprs: b.exprs.iter().map(|e| map_expr_inner(e, f, flip)).collect(),
    }
}

pub fn map_expr(e: &Expr, f: &dyn Fn(&Expr) -> Option<Expr>) -> Expr {
    map_expr_inner(e, f, false)
}

fn map_expr_inner(e: &Expr, f: &dyn Fn(&Expr) -> Option<Expr>, flip: bool) -> Expr {
    if let Some(r) = f(e) {
        return r;
    }
    let m = |x: &Expr| map_expr_inner(x, f, flip);
    let mb = |x: &Box<Expr>| Box::new(map_expr_inner(x, f, flip));
    let mv = |xs: &Vec<Expr>| xs.iter().map(|x| map_expr_inner(x, f, flip)).collect::<Vec<_>>();
    match e {
        Expr::Set(n, v) => Expr::Set(n.clone(), mb(v)),
        Expr::If(c, a, b) => Expr::If(mb(c), mb(a), b.as_ref().map(|b| mb(b))),
        Expr::Lambda(fm, b) => Expr::Lambda(fm.clone(), Box::new(map_body(b, f, flip))),
        Expr::App(g, args) => Expr::App(mb(g), mv(args)),
        Expr::Apply(g, args, last) => Expr::Apply(mb(g), mv(args), mb(last)),
        Expr::Begin(es) => Expr::Begin(mv(es)),
        Expr::Let(bs, b) => Expr::Let(bs.iter().map(|(n, v)| (n.clone(), m(v))).collect(), Box::new(map_body(b, f, flip))),
        Expr::LetStar(bs, b) => Expr::LetStar(bs.iter().map(|(n, v)| (n.clone(), m(v))).collect(), Box::new(map_body(b, f, flip))),
        Expr::Cond(cs, els) => Expr::Cond(
            cs.iter()
                .map(|c| match c {
                    Clause::Test(t) => Clause::Test(m(t)),
                    Clause::Then(t, es) => Clause::Then(m(t), mv(es)),
                    Clause::Arrow(t, r) => Clause::Arrow(m(t), m(r)),
                })
                .collect(),
            els.as_ref().map(|es| mv(es)),
        ),
        Expr::Case(k, cs, els) => {
            let cb = |b: &CaseBody| match b {
                CaseBody::Exprs(es) => CaseBody::Exprs(mv(es)),
                CaseBody::Arrow(r) => CaseBody::Arrow(Box::new(m(r))),
            };
            Expr::Case(mb(k), cs.iter().map(|(ks, b)| (ks.clone(), cb(b))).collect(), els.as_ref().map(|b| cb(b)))
        }
        Expr::And(es) => Expr::And(mv(es)),
        Expr::Or(es) => Expr::Or(mv(es)),
        Expr::When(c, es) => Expr::When(mb(c), mv(es)),
        Expr::Unless(c, es) => Expr::Unless(mb(c), mv(es)),
        Expr::Tick(k, v) => Expr::Tick(*k, mb(v)),
        Expr::Probe(v) => Expr::Probe(mb(v)),
        Expr::Marked(v) => Expr::Marked(mb(v)),
        other => other.clone(),
    }
}
