use rv::runner::{load_replay, Ctx, Tier};

fn usage() -> ! {
    eprintln!("usage: rv check <ID> [quick|thorough] | rv replay <file>");
    std::process::exit(2);
}

fn main() {
    rv::sut::install_panic_hook();
    rv::runner::capture_stdout();
    let args: Vec<String> = std::env::args().collect();
    if args.len() < 3 {
        usage();
    }
    let seed: u64 = std::env::var("VERIF_SEED").ok().and_then(|s| s.trim().parse().ok()).unwrap_or(1);
    match args[1].as_str() {
        "check" => {
            let id = args[2].to_uppercase();
            let mut tier = match args.get(3).map(|s| s.as_str()) {
                Some("thorough") => Tier::Thorough,
                _ => Tier::Quick,
            };
            if let Ok(t) = std::env::var("VERIF_TIER") {
                match t.trim() {
                    "thorough" => tier = Tier::Thorough,
                    "quick" => tier = Tier::Quick,
                    _ => {}
                }
            }
            // a run that does not end (an interpreter loop that no step budget covers) is inconclusive, not a verdict:
            // far above the longest run on the unchanged tree (quick < 1 min, thorough < 15 min on 16 cores)
            let limit_s: u64 = std::env::var("RV_WATCHDOG_S").ok().and_then(|s| s.parse().ok()).unwrap_or(match tier {
                Tier::Quick => 45 * 60,
                Tier::Thorough => 4 * 3600,
            });
            let id2 = id.clone();
            std::thread::spawn(move || {
                std::thread::sleep(std::time::Duration::from_secs(limit_s));
                eprintln!("[rv] {}: still running after {} s of wall clock: inconclusive", id2, limit_s);
                std::process::exit(2);
            });
            let ctx = Ctx::new(&id, tier, seed, None);
            if !rv::checks::run(&ctx) {
                eprintln!("unknown property {}", id);
                std::process::exit(2);
            }
            std::process::exit(ctx.finish());
        }
        "replay" => {
            let (prop, replay) = match load_replay(&args[2]) {
                Ok(x) => x,
                Err(e) => {
                    eprintln!("cannot load replay: {}", e);
                    std::process::exit(2);
                }
            };
            if let Some(target) = replay.sub.strip_prefix("fuzz:") {
                // libFuzzer artifact: run the target's own function in-process
                let hex = match &replay.case {
                    rv::runner::ReplayCase::Text(h) => h.clone(),
                    _ => String::new(),
                };
                let bytes: Vec<u8> = (0..hex.len() / 2).filter_map(|i| u8::from_str_radix(&hex[2 * i..2 * i + 2], 16).ok()).collect();
                let (prop2, rep) = rv::fuzzsupport::replay_bytes(target, &bytes);
                rv::outln!("replay fuzz:{} property={}\n  case: {}\n  observed: {}", target, prop2, rep.key, rep.note);
                let known = rv::runner::load_findings();
                let mut bad = false;
                for f in &rep.fails {
                    let listed = known.iter().any(|k| k.property == prop2 && k.status == "known" && k.signature == f.sig);
                    rv::outln!("  fail sig={} known={} detail={}", f.sig, listed, f.detail);
                    bad |= !listed;
                }
                if bad {
                    rv::outln!("VIOLATION property={} replay={}", prop2, args[2]);
                    std::process::exit(1);
                }
                std::process::exit(0);
            }
            let ctx = Ctx::new(&prop, Tier::Quick, seed, Some(replay));
            if !rv::checks::run(&ctx) {
                std::process::exit(2);
            }
            std::process::exit(ctx.finish());
        }
        _ => usage(),
    }
}
