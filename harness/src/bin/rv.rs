use rv::runner::{load_replay, Ctx, Tier};

fn usage() -> ! {
    eprintln!("usage: rv check <ID> [quick|thorough] | rv replay <file>");
    std::process::exit(2);
}

fn main() {
    rv::sut::install_panic_hook();
    rv::runner::capture_stdout();
    let args: Vec<String> = std::env::args().collect();
    if args.len() < 3 {
        usage();
    }
    let seed: u64 = std::env::var("VERIF_SEED").ok().and_then(|s| s.trim().parse().ok()).unwrap_or(1);
    match args[1].as_str() {
        "check" => {
            let id = args[2].to_uppercase();
            let mut tier = match args.get(3).map(|s| s.as_str()) {
                Some("thorough") => Tier::Thorough,
                _ => Tier::Quick,
            };
            if let Ok(t) = std::env::var("VERIF_TIER") {
                match t.trim() {
                    "thorough" => tier = Tier::Thorough,
                    "quick" => tier = Tier::Quick,
                    _ => {}
                }
            }
            let ctx = Ctx::new(&id, tier, seed, None);
            if !rv::checks::run(&ctx) {
                eprintln!("unknown property {}", id);
                std::process::exit(2);
            }
            std::process::exit(ctx.finish());
        }
        "replay" => {
            let (prop, replay) = match load_replay(&args[2]) {
                Ok(x) => x,
                Err(e) => {
                    eprintln!("cannot load replay: {}", e);
                    std::process::exit(2);
                }
            };
            let ctx = Ctx::new(&prop, Tier::Quick, seed, Some(replay));
            if !rv::checks::run(&ctx) {
                std::process::exit(2);
            }
            std::process::exit(ctx.finish());
        }
        _ => usage(),
    }
}
