//! rv: property-based verification harness for Ruschm (see /verif/DESIGN.md).
pub mod checks;
pub mod numgrid;
pub mod reflex;
pub mod refnum;
pub mod runner;
pub mod sut;

#[global_allocator]
static GLOBAL: sut::CountingAlloc = sut::CountingAlloc;
