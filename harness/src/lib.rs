//! rv: property-based verification harness for Ruschm (see /verif/DESIGN.md).
pub mod ast;
pub mod checks;
pub mod faults;
pub mod fuzzsupport;
pub mod gen;
pub mod refeval;
pub mod numgrid;
pub mod progcheck;
pub mod reflex;
pub mod refmacro;
pub mod refnum;
pub mod runner;
pub mod sut;

#[global_allocator]
static GLOBAL: sut::CountingAlloc = sut::CountingAlloc;
