//! Reference syntax-rules matcher / instantiator for the supported class (DESIGN.md appendix C).
use crate::ast::{render_datum, Datum};
use std::collections::HashMap;

#[derive(Clone, Debug, PartialEq)]
pub enum Pat {
    Var(String),
    Underscore,
    /// identifier listed in the literals of the rule set
    Lit(String),
    /// literal datum (number, string, boolean, character)
    Datum(Datum),
    /// fixed items, then optionally one sub-pattern followed by an ellipsis (final position)
    List(Vec<Pat>, Option<Box<Pat>>),
    Vector(Vec<Pat>, Option<Box<Pat>>),
}

#[derive(Clone, Debug, PartialEq)]
pub enum Tmpl {
    Var(String),
    /// identifier that is not a pattern variable
    Sym(String),
    Datum(Datum),
    /// elements, each optionally followed by an ellipsis
    List(Vec<(Tmpl, bool)>),
    Vector(Vec<(Tmpl, bool)>),
}

#[derive(Clone, Debug, PartialEq)]
pub struct Rule {
    /// pattern of the arguments (the keyword itself is spelled out when rendering)
    pub pattern: Pat,
    pub template: Tmpl,
}

#[derive(Clone, Debug, PartialEq)]
pub struct RuleSet {
    pub literals: Vec<String>,
    pub rules: Vec<Rule>,
}

#[derive(Clone, Debug, PartialEq)]
pub enum Bind {
    One(Datum),
    Seq(Vec<Datum>),
}

pub type Bindings = HashMap<String, Bind>;

fn pat_vars(p: &Pat, out: &mut Vec<String>) {
    match p {
        Pat::Var(v) => out.push(v.clone()),
        Pat::List(items, e) | Pat::Vector(items, e) => {
            for i in items {
                pat_vars(i, out);
            }
            if let Some(e) = e {
                pat_vars(e, out);
            }
        }
        _ => {}
    }
}

fn match_seq(items: &[Pat], ell: &Option<Box<Pat>>, forms: &[Datum], b: &mut Bindings) -> bool {
    match ell {
        None => forms.len() == items.len() && items.iter().zip(forms.iter()).all(|(p, f)| matches(p, f, b)),
        Some(pe) => {
            // the class explored by the property starts at one item per ellipsis
            if forms.len() < items.len() + 1 {
                return false;
            }
            for (p, f) in items.iter().zip(forms.iter()) {
                if !matches(p, f, b) {
                    return false;
                }
            }
            let mut vars = vec![];
            pat_vars(pe, &mut vars);
            let mut seqs: HashMap<String, Vec<Datum>> = vars.iter().map(|v| (v.clone(), vec![])).collect();
            for f in &forms[items.len()..] {
                let mut sub = Bindings::new();
                if !matches(pe, f, &mut sub) {
                    return false;
                }
                for v in &vars {
                    match sub.get(v) {
                        Some(Bind::One(d)) => seqs.get_mut(v).unwrap().push(d.clone()),
                        _ => return false,
                    }
                }
            }
            for (v, s) in seqs {
                b.insert(v, Bind::Seq(s));
            }
            true
        }
    }
}

pub fn matches(p: &Pat, f: &Datum, b: &mut Bindings) -> bool {
    match p {
        Pat::Var(v) => {
            b.insert(v.clone(), Bind::One(f.clone()));
            true
        }
        Pat::Underscore => true,
        Pat::Lit(l) => matches!(f, Datum::Sym(s) if s == l),
        Pat::Datum(d) => d == f,
        Pat::List(items, ell) => match f {
            Datum::List(forms, None) => match_seq(items, ell, forms, b),
            _ => false,
        },
        Pat::Vector(items, ell) => match f {
            Datum::Vector(forms) => match_seq(items, ell, forms, b),
            _ => false,
        },
    }
}

fn tmpl_vars(t: &Tmpl, out: &mut Vec<String>) {
    match t {
        Tmpl::Var(v) => out.push(v.clone()),
        Tmpl::List(items) | Tmpl::Vector(items) => {
            for (i, _) in items {
                tmpl_vars(i, out);
            }
        }
        _ => {}
    }
}

fn inst_elems(items: &[(Tmpl, bool)], b: &Bindings) -> Option<Vec<Datum>> {
    let mut out = vec![];
    for (t, ell) in items {
        if !*ell {
            out.push(inst(t, b)?);
        } else {
            let mut vars = vec![];
            tmpl_vars(t, &mut vars);
            let lens: Vec<usize> = vars
                .iter()
                .filter_map(|v| match b.get(v) {
                    Some(Bind::Seq(s)) => Some(s.len()),
                    _ => None,
                })
                .collect();
            let n = *lens.iter().min()?;
            for i in 0..n {
                let mut bi = b.clone();
                for v in &vars {
                    if let Some(Bind::Seq(s)) = b.get(v) {
                        bi.insert(v.clone(), Bind::One(s[i].clone()));
                    }
                }
                out.push(inst(t, &bi)?);
            }
        }
    }
    Some(out)
}

/// None: the template is outside the class (a sequence variable outside an ellipsis)
pub fn inst(t: &Tmpl, b: &Bindings) -> Option<Datum> {
    match t {
        Tmpl::Var(v) => match b.get(v) {
            Some(Bind::One(d)) => Some(d.clone()),
            Some(Bind::Seq(_)) => None,
            None => Some(Datum::Sym(v.clone())),
        },
        Tmpl::Sym(s) => Some(Datum::Sym(s.clone())),
        Tmpl::Datum(d) => Some(d.clone()),
        Tmpl::List(items) => Some(Datum::List(inst_elems(items, b)?, None)),
        Tmpl::Vector(items) => Some(Datum::Vector(inst_elems(items, b)?)),
    }
}

#[derive(Clone, Debug, PartialEq)]
pub enum Expansion {
    /// index of the rule that matched, instantiated template
    Expanded(usize, Datum),
    NoMatch,
    OutOfClass,
}

pub fn expand(rs: &RuleSet, use_args: &Datum) -> Expansion {
    for (i, r) in rs.rules.iter().enumerate() {
        let mut b = Bindings::new();
        if matches(&r.pattern, use_args, &mut b) {
            return match inst(&r.template, &b) {
                Some(d) => Expansion::Expanded(i, d),
                None => Expansion::OutOfClass,
            };
        }
    }
    Expansion::NoMatch
}

// ------------------------------------------------------------------------------------
// rendering

pub fn render_pat(p: &Pat) -> String {
    fn seq(items: &[Pat], ell: &Option<Box<Pat>>) -> String {
        let mut parts: Vec<String> = items.iter().map(render_pat).collect();
        if let Some(e) = ell {
            parts.push(render_pat(e));
            parts.push("...".to_string());
        }
        parts.join(" ")
    }
    match p {
        Pat::Var(v) => v.clone(),
        Pat::Underscore => "_".to_string(),
        Pat::Lit(l) => l.clone(),
        Pat::Datum(d) => render_datum(d),
        Pat::List(items, ell) => format!("({})", seq(items, ell)),
        Pat::Vector(items, ell) => format!("#({})", seq(items, ell)),
    }
}

pub fn render_tmpl(t: &Tmpl) -> String {
    fn seq(items: &[(Tmpl, bool)]) -> String {
        let mut parts = vec![];
        for (t, e) in items {
            parts.push(render_tmpl(t));
            if *e {
                parts.push("...".to_string());
            }
        }
        parts.join(" ")
    }
    match t {
        Tmpl::Var(v) | Tmpl::Sym(v) => v.clone(),
        Tmpl::Datum(d) => render_datum(d),
        Tmpl::List(items) => format!("({})", seq(items)),
        Tmpl::Vector(items) => format!("#({})", seq(items)),
    }
}

/// (define-syntax KEYWORD (syntax-rules (lits) ((KEYWORD . pattern) 'template) ...))
pub fn render_rule_set(keyword: &str, rs: &RuleSet) -> String {
    let rules: Vec<String> = rs
        .rules
        .iter()
        .map(|r| {
            let args = match &r.pattern {
                Pat::List(items, ell) => {
                    let inner = render_pat(&Pat::List(items.clone(), ell.clone()));
                    inner[1..inner.len() - 1].to_string()
                }
                other => format!(". {}", render_pat(other)),
            };
            let sep = if args.is_empty() { "" } else { " " };
            format!("(({}{}{}) (quote {}))", keyword, sep, args, render_tmpl(&r.template))
        })
        .collect();
    format!("(define-syntax {} (syntax-rules ({}) {}))", keyword, rs.literals.join(" "), rules.join(" "))
}

pub fn render_use(keyword: &str, args: &Datum) -> String {
    match args {
        Datum::List(items, None) => {
            let inner: Vec<String> = items.iter().map(render_datum).collect();
            if inner.is_empty() {
                format!("({})", keyword)
            } else {
                format!("({} {})", keyword, inner.join(" "))
            }
        }
        other => format!("({} . {})", keyword, render_datum(other)),
    }
}

#[cfg(test)]
mod tests {
    use super::*;
    fn l(v: Vec<Datum>) -> Datum {
        Datum::List(v, None)
    }
    #[test]
    fn basics() {
        // (m a b ...) => '(b ... a)
        let rs = RuleSet {
            literals: vec![],
            rules: vec![Rule {
                pattern: Pat::List(vec![Pat::Var("a".into())], Some(Box::new(Pat::Var("b".into())))),
                template: Tmpl::List(vec![(Tmpl::Var("b".into()), true), (Tmpl::Var("a".into()), false)]),
            }],
        };
        assert_eq!(expand(&rs, &l(vec![Datum::Int(1), Datum::Int(2), Datum::Int(3)])), Expansion::Expanded(0, l(vec![Datum::Int(2), Datum::Int(3), Datum::Int(1)])));
        assert_eq!(expand(&rs, &l(vec![Datum::Int(1)])), Expansion::NoMatch);
        // literal and datum
        let rs = RuleSet {
            literals: vec!["else".into()],
            rules: vec![
                Rule { pattern: Pat::List(vec![Pat::Lit("else".into()), Pat::Var("x".into())], None), template: Tmpl::List(vec![(Tmpl::Sym("first".into()), false), (Tmpl::Var("x".into()), false)]) },
                Rule { pattern: Pat::List(vec![Pat::Datum(Datum::Int(5)), Pat::Underscore], None), template: Tmpl::Sym("second".into()) },
            ],
        };
        assert_eq!(expand(&rs, &l(vec![Datum::Sym("else".into()), Datum::Int(9)])), Expansion::Expanded(0, l(vec![Datum::Sym("first".into()), Datum::Int(9)])));
        assert_eq!(expand(&rs, &l(vec![Datum::Int(5), Datum::Int(9)])), Expansion::Expanded(1, Datum::Sym("second".into())));
        assert_eq!(expand(&rs, &l(vec![Datum::Int(6), Datum::Int(9)])), Expansion::NoMatch);
        // ((x y) ...) => '((y x) ...)
        let rs = RuleSet {
            literals: vec![],
            rules: vec![Rule {
                pattern: Pat::List(vec![], Some(Box::new(Pat::List(vec![Pat::Var("x".into()), Pat::Var("y".into())], None)))),
                template: Tmpl::List(vec![(Tmpl::List(vec![(Tmpl::Var("y".into()), false), (Tmpl::Var("x".into()), false)]), true)]),
            }],
        };
        assert_eq!(
            expand(&rs, &l(vec![l(vec![Datum::Int(1), Datum::Int(2)]), l(vec![Datum::Int(3), Datum::Int(4)])])),
            Expansion::Expanded(0, l(vec![l(vec![Datum::Int(2), Datum::Int(1)]), l(vec![Datum::Int(4), Datum::Int(3)])]))
        );
    }
}
