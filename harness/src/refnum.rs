//! Reference numbers: exact rationals in i128 (reduced, positive denominator) and binary32 reals.
use crate::sut::SNum;

pub fn gcd(a: i128, b: i128) -> i128 {
    let (mut a, mut b) = (a.abs(), b.abs());
    while b != 0 {
        let t = a % b;
        a = b;
        b = t;
    }
    a
}

#[derive(Clone, Copy, Debug, PartialEq)]
pub enum RNum {
    Ex(i128, i128),
    Re(f32),
}

pub fn ex(n: i128, d: i128) -> RNum {
    assert!(d != 0);
    let g = gcd(n, d).max(1);
    let (mut n, mut d) = (n / g, d / g);
    if d < 0 {
        n = -n;
        d = -d;
    }
    RNum::Ex(n, d)
}

impl RNum {
    pub fn is_exact(&self) -> bool {
        matches!(self, RNum::Ex(..))
    }
    pub fn int(n: i128) -> RNum {
        RNum::Ex(n, 1)
    }
    /// mathematical value of an interpreter number (None: zero denominator)
    pub fn of(s: &SNum) -> Option<RNum> {
        match *s {
            SNum::Int(n) => Some(RNum::Ex(n as i128, 1)),
            SNum::Rat(a, b) => {
                if b == 0 {
                    None
                } else {
                    Some(ex(a as i128, b as i128))
                }
            }
            SNum::Real(bits) => Some(RNum::Re(f32::from_bits(bits))),
        }
    }
    pub fn add(self, o: RNum) -> RNum {
        match (self, o) {
            (RNum::Ex(a, b), RNum::Ex(c, d)) => ex(a * d + c * b, b * d),
            _ => unreachable!(),
        }
    }
    pub fn sub(self, o: RNum) -> RNum {
        match (self, o) {
            (RNum::Ex(a, b), RNum::Ex(c, d)) => ex(a * d - c * b, b * d),
            _ => unreachable!(),
        }
    }
    pub fn mul(self, o: RNum) -> RNum {
        match (self, o) {
            (RNum::Ex(a, b), RNum::Ex(c, d)) => ex(a * c, b * d),
            _ => unreachable!(),
        }
    }
    pub fn div(self, o: RNum) -> Option<RNum> {
        match (self, o) {
            (RNum::Ex(a, b), RNum::Ex(c, d)) => {
                if c == 0 {
                    None
                } else {
                    Some(ex(a * d, b * c))
                }
            }
            _ => unreachable!(),
        }
    }
    pub fn floor(self) -> RNum {
        match self {
            RNum::Ex(a, b) => RNum::Ex(a.div_euclid(b), 1),
            RNum::Re(x) => RNum::Re(x.floor()),
        }
    }
    pub fn ceiling(self) -> RNum {
        match self {
            RNum::Ex(a, b) => RNum::Ex(-((-a).div_euclid(b)), 1),
            RNum::Re(x) => RNum::Re(x.ceil()),
        }
    }
    pub fn abs(self) -> RNum {
        match self {
            RNum::Ex(a, b) => RNum::Ex(a.abs(), b),
            RNum::Re(x) => RNum::Re(x.abs()),
        }
    }
    pub fn cmp_exact(self, o: RNum) -> std::cmp::Ordering {
        match (self, o) {
            (RNum::Ex(a, b), RNum::Ex(c, d)) => (a * d).cmp(&(c * b)),
            _ => unreachable!(),
        }
    }
    /// does the exact value fit the interpreter's representation (i32 numerator and denominator)?
    pub fn representable(self) -> bool {
        match self {
            RNum::Ex(a, b) => a >= i32::MIN as i128 && a <= i32::MAX as i128 && b <= i32::MAX as i128,
            RNum::Re(_) => true,
        }
    }
    /// binary32 conversion of the reduced value, as the property states it (n as f32 / d as f32)
    pub fn to_f32(self) -> f32 {
        match self {
            RNum::Ex(a, 1) => a as f32,
            RNum::Ex(a, b) => a as f32 / b as f32,
            RNum::Re(x) => x,
        }
    }
    pub fn show(self) -> String {
        match self {
            RNum::Ex(a, 1) => format!("{}", a),
            RNum::Ex(a, b) => format!("{}/{}", a, b),
            RNum::Re(x) => format!("{:?}", x),
        }
    }
}

/// candidates for the binary32 conversion of an interpreter number: from its representation and from its reduced value
pub fn conv_candidates(s: &SNum) -> Vec<f32> {
    match *s {
        SNum::Int(n) => vec![n as f32],
        SNum::Rat(a, b) => {
            let mut v = vec![a as f32 / b as f32];
            if let Some(r) = RNum::of(s) {
                let c = r.to_f32();
                if !v.iter().any(|x| x.to_bits() == c.to_bits()) {
                    v.push(c);
                }
            }
            v
        }
        SNum::Real(bits) => vec![f32::from_bits(bits)],
    }
}

pub fn same_f32(a: f32, b: f32) -> bool {
    (a.is_nan() && b.is_nan()) || a.to_bits() == b.to_bits()
}

#[cfg(test)]
mod tests {
    use super::*;
    #[test]
    fn basics() {
        assert_eq!(ex(2, -4), RNum::Ex(-1, 2));
        assert_eq!(ex(-1, 2).floor(), RNum::Ex(-1, 1));
        assert_eq!(ex(-1, 2).ceiling(), RNum::Ex(0, 1));
        assert_eq!(ex(1, 2).ceiling(), RNum::Ex(1, 1));
        assert_eq!(ex(7, 2).floor(), RNum::Ex(3, 1));
        assert_eq!(ex(-7, 2).floor(), RNum::Ex(-4, 1));
        assert_eq!(ex(1, 3).add(ex(1, 6)), RNum::Ex(1, 2));
        assert_eq!(ex(1, 3).div(ex(0, 1)), None);
    }
}
