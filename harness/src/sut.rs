//! Driver around the real interpreter: fresh threads, catch_unwind, panic-site hook,
//! fuel, structural snapshots of values, host procedures (tick / probe).
use ruschm::error::{ErrorData, SchemeError};
use ruschm::interpreter::error::LogicError;
use ruschm::interpreter::Interpreter;
use ruschm::param_fixed;
use ruschm::values::{ArgVec, Number, Procedure, Value, ValueReference};
use std::cell::{Cell, RefCell};
use std::collections::HashMap;
use std::panic::{catch_unwind, AssertUnwindSafe};
use std::rc::Rc;
use std::sync::{Mutex, Once};

// ------------------------------------------------------------------------------------
// counting allocator (per-thread live bytes) -- used by C02

pub struct CountingAlloc;

thread_local! {
    static LIVE: Cell<isize> = const { Cell::new(0) };
}

unsafe impl std::alloc::GlobalAlloc for CountingAlloc {
    unsafe fn alloc(&self, l: std::alloc::Layout) -> *mut u8 {
        let p = std::alloc::System.alloc(l);
        if !p.is_null() {
            let _ = LIVE.try_with(|c| c.set(c.get() + l.size() as isize));
        }
        p
    }
    unsafe fn dealloc(&self, p: *mut u8, l: std::alloc::Layout) {
        let _ = LIVE.try_with(|c| c.set(c.get() - l.size() as isize));
        std::alloc::System.dealloc(p, l)
    }
    unsafe fn realloc(&self, p: *mut u8, l: std::alloc::Layout, new: usize) -> *mut u8 {
        let q = std::alloc::System.realloc(p, l, new);
        if !q.is_null() {
            let _ = LIVE.try_with(|c| c.set(c.get() + new as isize - l.size() as isize));
        }
        q
    }
}

pub fn live_bytes() -> isize {
    LIVE.with(|c| c.get())
}

fn live_probe() -> usize {
    LIVE.try_with(|c| c.get()).unwrap_or(0).max(0) as usize
}

/// per-thread cap on live heap while a budget is armed (outside the claim of every property)
pub const MEM_CAP: usize = 256 << 20;

// ------------------------------------------------------------------------------------
// panic hook

thread_local! {
    static LAST_PANIC: RefCell<Option<(String, String)>> = const { RefCell::new(None) };
    static QUIET: Cell<bool> = const { Cell::new(false) };
}
static ANY_PANIC: Mutex<Option<(String, String)>> = Mutex::new(None);

pub fn install_panic_hook() {
    static ONCE: Once = Once::new();
    ONCE.call_once(|| {
        std::panic::set_hook(Box::new(|info| {
            let loc = info
                .location()
                .map(|l| format!("{}:{}", norm_file(l.file()), l.line()))
                .unwrap_or_else(|| "?".to_string());
            let msg = if let Some(s) = info.payload().downcast_ref::<&str>() {
                s.to_string()
            } else if let Some(s) = info.payload().downcast_ref::<String>() {
                s.clone()
            } else {
                "<non-string panic>".to_string()
            };
            let quiet = QUIET.try_with(|q| q.get()).unwrap_or(false);
            let _ = LAST_PANIC.try_with(|p| *p.borrow_mut() = Some((loc.clone(), msg.clone())));
            if !quiet {
                // a panic outside a guarded SUT call: harness bug, make it visible
                eprintln!("[rv] unguarded panic at {}: {}", loc, msg);
                if let Ok(mut g) = ANY_PANIC.lock() {
                    *g = Some((loc, msg));
                }
            }
        }));
    });
}

fn norm_file(f: &str) -> String {
    if let Some(i) = f.find("/repo/") {
        return f[i + 6..].to_string();
    }
    if let Some(i) = f.rfind("/src/") {
        // std / dependency files: keep crate-relative tail
        let head = &f[..i];
        let krate = head.rsplit('/').next().unwrap_or("");
        return format!("<{}>{}", krate, &f[i..]);
    }
    f.to_string()
}

/// Normalised panic message: digits collapsed, truncated.
pub fn norm_msg(m: &str) -> String {
    let mut out = String::new();
    let mut in_digits = false;
    for c in m.chars() {
        if c.is_ascii_digit() {
            if !in_digits {
                out.push('N');
                in_digits = true;
            }
        } else {
            in_digits = false;
            out.push(if c == '\n' { ' ' } else { c });
        }
        if out.len() >= 90 {
            break;
        }
    }
    out
}

/// Run `f`, converting a panic inside it into `Err((site, message))`.
pub fn guarded<T>(f: impl FnOnce() -> T) -> Result<T, (String, String)> {
    install_panic_hook();
    LAST_PANIC.with(|p| *p.borrow_mut() = None);
    let was = QUIET.with(|q| q.replace(true));
    let r = catch_unwind(AssertUnwindSafe(f));
    QUIET.with(|q| q.set(was));
    match r {
        Ok(v) => Ok(v),
        Err(_) => {
            let (site, msg) = LAST_PANIC
                .with(|p| p.borrow_mut().take())
                .unwrap_or_else(|| ("?".to_string(), "?".to_string()));
            Err((site, msg))
        }
    }
}

/// signature of a panic: file (without line) + normalised message
pub fn panic_sig(site: &str, msg: &str) -> String {
    let file = site.rsplit_once(':').map(|(f, _)| f).unwrap_or(site);
    format!("panic@{}#{}", file, norm_msg(msg))
}

// ------------------------------------------------------------------------------------
// threads

pub const STACK_BYTES: usize = 512 << 20;

pub fn in_thread<T: Send + 'static>(f: impl FnOnce() -> T + Send + 'static) -> T {
    install_panic_hook();
    let h = std::thread::Builder::new()
        .stack_size(STACK_BYTES)
        .spawn(f)
        .expect("spawn");
    match h.join() {
        Ok(v) => v,
        Err(_) => {
            eprintln!("[rv] worker thread died: {:?}", ANY_PANIC.lock().ok().and_then(|g| g.clone()));
            std::process::exit(2);
        }
    }
}

// ------------------------------------------------------------------------------------
// structural snapshot of values

#[derive(Clone, Debug, PartialEq)]
pub enum SNum {
    Int(i32),
    Rat(i32, i32),
    Real(u32),
}

impl SNum {
    pub fn is_exact(&self) -> bool {
        !matches!(self, SNum::Real(_))
    }
    /// exact value as (num, den) with den > 0 (not reduced); None for reals or den == 0
    pub fn exact(&self) -> Option<(i128, i128)> {
        match *self {
            SNum::Int(n) => Some((n as i128, 1)),
            SNum::Rat(a, b) => {
                if b == 0 {
                    None
                } else if b < 0 {
                    Some((-(a as i128), -(b as i128)))
                } else {
                    Some((a as i128, b as i128))
                }
            }
            SNum::Real(_) => None,
        }
    }
    pub fn real(&self) -> Option<f32> {
        match *self {
            SNum::Real(b) => Some(f32::from_bits(b)),
            _ => None,
        }
    }
    /// same exactness and same mathematical value (NaN equals NaN as a class; -0.0 != 0.0 bitwise kept distinct only by caller)
    pub fn same_value(&self, other: &SNum) -> bool {
        match (self.exact(), other.exact()) {
            (Some((a, b)), Some((c, d))) => a * d == c * b,
            (None, None) => match (self.real(), other.real()) {
                (Some(x), Some(y)) => (x.is_nan() && y.is_nan()) || x.to_bits() == y.to_bits(),
                _ => self == other,
            },
            _ => false,
        }
    }
    pub fn show(&self) -> String {
        match *self {
            SNum::Int(n) => format!("{}", n),
            SNum::Rat(a, b) => format!("{}/{}", a, b),
            SNum::Real(b) => format!("{:?}", f32::from_bits(b)),
        }
    }
}

#[derive(Clone, Debug, PartialEq)]
pub enum SVal {
    Num(SNum),
    Bool(bool),
    Char(char),
    Str(String),
    Sym(String),
    Nil,
    Pair(Box<SVal>, Box<SVal>),
    /// id = Rc address (0 in model values unless stated), mutable flag
    Vector { id: usize, mutable: bool, items: Vec<SVal> },
    VecCycle(usize),
    Proc(String),
    Transformer,
    Void,
    TooDeep,
}

impl SVal {
    pub fn int(n: i32) -> SVal {
        SVal::Num(SNum::Int(n))
    }
    pub fn list(items: Vec<SVal>) -> SVal {
        Self::list_tail(items, SVal::Nil)
    }
    pub fn list_tail(items: Vec<SVal>, tail: SVal) -> SVal {
        let mut acc = tail;
        for it in items.into_iter().rev() {
            acc = SVal::Pair(Box::new(it), Box::new(acc));
        }
        acc
    }
    /// Value equality used by oracles: numbers by value+exactness, vectors by content
    /// (identity and mutability ignored), procedures all alike.
    pub fn equiv(&self, other: &SVal) -> bool {
        match (self, other) {
            (SVal::Num(a), SVal::Num(b)) => a.same_value(b),
            (SVal::Pair(a, b), SVal::Pair(c, d)) => a.equiv(c) && b.equiv(d),
            (SVal::Vector { items: a, .. }, SVal::Vector { items: b, .. }) => {
                a.len() == b.len() && a.iter().zip(b.iter()).all(|(x, y)| x.equiv(y))
            }
            (SVal::Proc(_), SVal::Proc(_)) => true,
            _ => self == other,
        }
    }
    pub fn show(&self) -> String {
        match self {
            SVal::Num(n) => n.show(),
            SVal::Bool(true) => "#t".into(),
            SVal::Bool(false) => "#f".into(),
            SVal::Char(c) => format!("#\\{}", c),
            SVal::Str(s) => format!("{:?}", s),
            SVal::Sym(s) => s.clone(),
            SVal::Nil => "()".into(),
            SVal::Pair(..) => {
                let mut out = String::from("(");
                let mut cur = self;
                let mut first = true;
                loop {
                    match cur {
                        SVal::Pair(a, d) => {
                            if !first {
                                out.push(' ');
                            }
                            first = false;
                            out.push_str(&a.show());
                            cur = d;
                        }
                        SVal::Nil => break,
                        other => {
                            out.push_str(" . ");
                            out.push_str(&other.show());
                            break;
                        }
                    }
                }
                out.push(')');
                out
            }
            SVal::Vector { items, mutable, .. } => format!(
                "#{}({})",
                if *mutable { "" } else { "!" },
                items.iter().map(|i| i.show()).collect::<Vec<_>>().join(" ")
            ),
            SVal::VecCycle(_) => "#<cycle>".into(),
            SVal::Proc(_) => "#<procedure>".into(),
            SVal::Transformer => "#<transformer>".into(),
            SVal::Void => "#<void>".into(),
            SVal::TooDeep => "#<too-deep>".into(),
        }
    }
}

pub fn snap_num(n: &Number<f32>) -> SNum {
    match *n {
        Number::Integer(i) => SNum::Int(i),
        Number::Rational(a, b) => SNum::Rat(a, b),
        Number::Real(r) => SNum::Real(r.to_bits()),
    }
}

pub fn snapshot(v: &Value<f32>) -> SVal {
    let mut seen = Vec::new();
    snap(v, 0, &mut seen)
}

fn snap(v: &Value<f32>, depth: usize, seen: &mut Vec<usize>) -> SVal {
    if depth > 400 {
        return SVal::TooDeep;
    }
    match v {
        Value::Number(n) => SVal::Num(snap_num(n)),
        Value::Boolean(b) => SVal::Bool(*b),
        Value::Character(c) => SVal::Char(*c),
        Value::String(s) => SVal::Str(s.clone()),
        Value::Symbol(s) => SVal::Sym(s.clone()),
        Value::Procedure(p) => SVal::Proc(format!("{}", p)),
        Value::Transformer(_) => SVal::Transformer,
        Value::Void => SVal::Void,
        Value::Pair(p) => {
            // iterate along the spine to avoid deep recursion on long lists
            let mut items = Vec::new();
            let mut cur: &ruschm::values::Pair<f32> = p.as_ref();
            let tail;
            let mut n = 0usize;
            loop {
                match cur {
                    ruschm::parser::pair::GenericPair::Empty => {
                        tail = SVal::Nil;
                        break;
                    }
                    ruschm::parser::pair::GenericPair::Some(car, cdr) => {
                        items.push(snap(car, depth + 1, seen));
                        n += 1;
                        if n > 200_000 {
                            tail = SVal::TooDeep;
                            break;
                        }
                        match cdr {
                            Value::Pair(next) => cur = next.as_ref(),
                            other => {
                                tail = snap(other, depth + 1, seen);
                                break;
                            }
                        }
                    }
                }
            }
            SVal::list_tail(items, tail)
        }
        Value::Vector(r) => {
            let (id, mutable) = match r {
                ValueReference::Immutable(rc) => (Rc::as_ptr(rc) as *const u8 as usize, false),
                ValueReference::Mutable(rc) => (Rc::as_ptr(rc) as *const u8 as usize, true),
            };
            if seen.contains(&id) {
                return SVal::VecCycle(id);
            }
            seen.push(id);
            let items = match r {
                ValueReference::Immutable(rc) => rc.iter().map(|i| snap(i, depth + 1, seen)).collect(),
                ValueReference::Mutable(rc) => match rc.try_borrow() {
                    Ok(b) => b.iter().map(|i| snap(i, depth + 1, seen)).collect(),
                    Err(_) => vec![SVal::TooDeep],
                },
            };
            seen.pop();
            SVal::Vector { id, mutable, items }
        }
    }
}

// ------------------------------------------------------------------------------------
// outcomes

#[derive(Clone, Debug, PartialEq)]
pub struct ErrInfo {
    /// e.g. "Logic::UnboundedSymbol", "Syntax::MacroMissMatch", "IO"
    pub tag: String,
    /// payload where useful (symbol name, expected type)
    pub arg: String,
    pub text: String,
    pub loc: Option<[u32; 2]>,
}

#[derive(Clone, Debug, PartialEq)]
pub enum Outcome {
    Value(SVal),
    NoValue,
    Error(ErrInfo),
    Panic { site: String, msg: String },
    /// 1 fuel, 2 depth, 3 alloc, 4 memory
    Budget(u8),
}

impl Outcome {
    pub fn show(&self) -> String {
        match self {
            Outcome::Value(v) => format!("value {}", v.show()),
            Outcome::NoValue => "no-value".into(),
            Outcome::Error(e) => format!("error {}({}) @{:?} \"{}\"", e.tag, e.arg, e.loc, e.text),
            Outcome::Panic { site, msg } => format!("PANIC at {}: {}", site, norm_msg(msg)),
            Outcome::Budget(k) => format!("budget({})", k),
        }
    }
    pub fn is_panic(&self) -> bool {
        matches!(self, Outcome::Panic { .. })
    }
    pub fn err_tag(&self) -> Option<&str> {
        match self {
            Outcome::Error(e) => Some(e.tag.as_str()),
            _ => None,
        }
    }
}

fn variant_name(dbg: String) -> String {
    dbg.split(|c: char| c == '(' || c == ' ' || c == '{')
        .next()
        .unwrap_or("")
        .to_string()
}

pub fn err_info(e: &SchemeError) -> ErrInfo {
    let (tag, arg) = match &e.data {
        ErrorData::IO(m) => ("IO".to_string(), m.clone()),
        ErrorData::Syntax(s) => (format!("Syntax::{}", variant_name(format!("{:?}", s))), String::new()),
        ErrorData::Logic(l) => {
            let arg = match l {
                LogicError::UnboundedSymbol(s) => s.clone(),
                LogicError::TypeMisMatch(_, t) => format!("{:?}", t),
                LogicError::Extension(s) => s.clone(),
                LogicError::LibraryNotFound(n) => format!("{}", n),
                LogicError::LibraryImportCyclic(n) => format!("{}", n),
                LogicError::MetaCircularSyntax(s) => variant_name(format!("{:?}", s)),
                _ => String::new(),
            };
            (format!("Logic::{}", variant_name(format!("{:?}", l))), arg)
        }
    };
    // Display of some errors embeds whole expressions; guard against panics/cycles there
    let text = guarded(|| format!("{}", e)).unwrap_or_else(|_| "<display panicked>".to_string());
    ErrInfo { tag, arg, text, loc: e.location }
}

// ------------------------------------------------------------------------------------
// host procedures

thread_local! {
    static TRACE: RefCell<Vec<i32>> = const { RefCell::new(Vec::new()) };
    static PROBES: RefCell<Vec<(usize, isize)>> = const { RefCell::new(Vec::new()) };
}

pub fn trace_take() -> Vec<i32> {
    TRACE.with(|t| std::mem::take(&mut *t.borrow_mut()))
}
pub fn trace_len() -> usize {
    TRACE.with(|t| t.borrow().len())
}
pub fn probes_take() -> Vec<(usize, isize)> {
    PROBES.with(|t| std::mem::take(&mut *t.borrow_mut()))
}
pub fn probes_reserve(n: usize) {
    PROBES.with(|t| {
        let mut t = t.borrow_mut();
        t.clear();
        t.reserve(n + 16);
    })
}

fn host_tick(args: ArgVec<f32>) -> Result<Value<f32>, SchemeError> {
    let mut it = args.into_iter();
    let k = it.next().unwrap();
    let v = it.next().unwrap();
    if let Value::Number(Number::Integer(k)) = k {
        TRACE.with(|t| t.borrow_mut().push(k));
    }
    Ok(v)
}

#[inline(never)]
fn host_probe(args: ArgVec<f32>) -> Result<Value<f32>, SchemeError> {
    let marker = 0u8;
    let addr = &marker as *const u8 as usize;
    let live = live_bytes();
    PROBES.with(|t| {
        let mut t = t.borrow_mut();
        if t.len() < t.capacity() {
            t.push((addr, live));
        }
    });
    Ok(args.into_iter().next().unwrap())
}

pub fn host_definitions() -> Vec<(String, Value<f32>)> {
    vec![
        (
            "tick".to_string(),
            Value::Procedure(Procedure::new_builtin_pure("tick".to_string(), param_fixed!["k", "v"], host_tick)),
        ),
        (
            "probe".to_string(),
            Value::Procedure(Procedure::new_builtin_pure("probe".to_string(), param_fixed!["v"], host_probe)),
        ),
    ]
}

// ------------------------------------------------------------------------------------
// sessions

#[derive(Clone, Copy, Debug, PartialEq)]
pub struct Budget {
    pub fuel: u64,
    pub depth: u32,
    pub alloc: usize,
}

impl Budget {
    pub const FUZZ: Budget = Budget { fuel: 30_000, depth: 2_000, alloc: 200_000 };
    pub const GENEROUS: Budget = Budget { fuel: 5_000_000, depth: 3_000, alloc: 1_000_000 };
}

pub struct Session {
    pub it: Interpreter<'static, f32>,
    pub budget: Option<Budget>,
}

impl Session {
    /// interpreter with (scheme base) and (scheme write) imported
    pub fn stdlib() -> Result<Session, (String, String)> {
        guarded(Interpreter::<f32>::new_with_stdlib).map(|it| Session { it, budget: None })
    }
    /// empty root frame, imports still allowed
    pub fn bare() -> Result<Session, (String, String)> {
        guarded(Interpreter::<f32>::default).map(|it| Session { it, budget: None })
    }
    pub fn with_host(self) -> Session {
        for (n, v) in host_definitions() {
            self.it.env.define(n, v);
        }
        self
    }
    pub fn with_budget(mut self, b: Budget) -> Session {
        self.budget = Some(b);
        self
    }
    pub fn eval(&mut self, text: &str) -> Outcome {
        if let Some(b) = self.budget {
            ruschm::verif_hooks::set_memory_probe(live_probe, live_probe() + MEM_CAP);
            ruschm::verif_hooks::arm(b.fuel, b.depth, b.alloc);
        }
        let it = &mut self.it;
        let r = guarded(|| it.eval(text.chars()).map(|o| o.map(|v| snapshot(&v))));
        let tripped = if self.budget.is_some() {
            let t = ruschm::verif_hooks::tripped();
            ruschm::verif_hooks::disarm();
            t
        } else {
            0
        };
        match r {
            Err((site, msg)) => Outcome::Panic { site, msg },
            Ok(_) if tripped != 0 => Outcome::Budget(tripped),
            Ok(Ok(Some(v))) => Outcome::Value(v),
            Ok(Ok(None)) => Outcome::NoValue,
            Ok(Err(e)) => Outcome::Error(err_info(&e)),
        }
    }
    pub fn eval_file(&mut self, path: &std::path::Path) -> Outcome {
        if let Some(b) = self.budget {
            ruschm::verif_hooks::set_memory_probe(live_probe, live_probe() + MEM_CAP);
            ruschm::verif_hooks::arm(b.fuel, b.depth, b.alloc);
        }
        let it = &mut self.it;
        let p = path.to_path_buf();
        let r = guarded(|| it.eval_file(p).map(|o| o.map(|v| snapshot(&v))));
        let tripped = if self.budget.is_some() {
            let t = ruschm::verif_hooks::tripped();
            ruschm::verif_hooks::disarm();
            t
        } else {
            0
        };
        match r {
            Err((site, msg)) => Outcome::Panic { site, msg },
            Ok(_) if tripped != 0 => Outcome::Budget(tripped),
            Ok(Ok(Some(v))) => Outcome::Value(v),
            Ok(Ok(None)) => Outcome::NoValue,
            Ok(Err(e)) => Outcome::Error(err_info(&e)),
        }
    }
    /// what a REPL would print for this input: Ok(Some(text of the value)), Ok(None) for no value / unspecified,
    /// Err(error message); panics are reported as Err("PANIC ...")
    pub fn eval_display(&mut self, text: &str) -> Result<Option<String>, String> {
        let it = &mut self.it;
        match guarded(|| {
            it.eval(text.chars()).map(|o| match o {
                Some(Value::Void) | None => None,
                Some(v) => Some(format!("{}", v)),
            })
        }) {
            Err((site, msg)) => Err(format!("PANIC {}", panic_sig(&site, &msg))),
            Ok(Ok(v)) => Ok(v),
            Ok(Err(e)) => Err(format!("{}", e)),
        }
    }

    /// names and snapshots of the root frame's own bindings
    pub fn root_bindings(&self) -> HashMap<String, SVal> {
        let mut m = HashMap::new();
        let mut defs = self.it.env.iter_local_definitions();
        for (k, v) in &mut *defs {
            m.insert(k.clone(), snapshot(v));
        }
        m
    }
}

// the interpreter's closures and environments form Rc cycles (a library environment holds the library's procedures,
// which hold the environment), so a dropped interpreter leaks about 160 KB; over hundreds of thousands of cases
// that exhausts memory. When a session ends, every environment reachable from the root frame through procedure
// values is emptied, which breaks those cycles.
fn collect_envs(v: &Value<f32>, out: &mut Vec<Rc<ruschm::environment::Environment<f32>>>, depth: usize, seen: &mut Vec<usize>) {
    if depth > 64 {
        return;
    }
    // every vector is walked once (vectors that hold one another would otherwise be walked exponentially often)
    if let Value::Vector(r) = v {
        let addr = match r {
            ValueReference::Immutable(rc) => Rc::as_ptr(rc) as *const u8 as usize,
            ValueReference::Mutable(rc) => Rc::as_ptr(rc) as *const u8 as usize,
        };
        if seen.contains(&addr) {
            return;
        }
        seen.push(addr);
    }
    match v {
        Value::Procedure(Procedure::User(_, env)) => out.push(env.clone()),
        Value::Pair(p) => {
            for item in p.iter() {
                collect_envs(item, out, depth + 1, seen);
            }
            if let Some(tail) = p.last_cdr() {
                collect_envs(tail, out, depth + 1, seen);
            }
        }
        Value::Vector(r) => {
            let items: Vec<Value<f32>> = match r {
                ValueReference::Immutable(rc) => rc.iter().cloned().collect(),
                ValueReference::Mutable(rc) => match rc.try_borrow() {
                    Ok(b) => b.iter().cloned().collect(),
                    Err(_) => vec![],
                },
            };
            for item in &items {
                collect_envs(item, out, depth + 1, seen);
            }
        }
        _ => {}
    }
}

pub fn scrub_environment(root: &Rc<ruschm::environment::Environment<f32>>) {
    let mut seen: Vec<*const ruschm::environment::Environment<f32>> = vec![];
    let mut queue = vec![root.clone()];
    let mut seen_vectors: Vec<usize> = vec![];
    while let Some(env) = queue.pop() {
        let ptr = Rc::as_ptr(&env);
        if seen.contains(&ptr) {
            continue;
        }
        seen.push(ptr);
        let mut names = vec![];
        {
            let mut defs = env.iter_local_definitions();
            for (k, v) in &mut *defs {
                names.push(k.clone());
                collect_envs(v, &mut queue, 0, &mut seen_vectors);
            }
        }
        for n in names {
            env.define(n, Value::Void);
        }
    }
}

impl Drop for Session {
    fn drop(&mut self) {
        // (no `guarded` here: sessions kept in thread-locals are dropped while thread-local storage is being destroyed)
        let env = self.it.env.clone();
        let _ = catch_unwind(AssertUnwindSafe(|| scrub_environment(&env)));
    }
}

/// Evaluate forms one by one on one fresh std-lib interpreter (with host procedures), in a
/// fresh thread; returns per-form outcome and the tick trace produced by that form.
pub fn run_forms(forms: Vec<String>, budget: Option<Budget>) -> Vec<(Outcome, Vec<i32>)> {
    in_thread(move || run_forms_here(&forms, budget))
}

pub fn run_forms_here(forms: &[String], budget: Option<Budget>) -> Vec<(Outcome, Vec<i32>)> {
    let mut out = Vec::new();
    let mut s = match Session::stdlib() {
        Ok(s) => s.with_host(),
        Err((site, msg)) => {
            return vec![(Outcome::Panic { site, msg }, vec![])];
        }
    };
    s.budget = budget;
    trace_take();
    for f in forms {
        let o = s.eval(f);
        out.push((o, trace_take()));
    }
    out
}

/// shorten a string to at most `max` bytes without cutting a character in two
pub fn truncate_chars(s: &mut String, max: usize) {
    if s.len() > max {
        let mut k = max;
        while !s.is_char_boundary(k) {
            k -= 1;
        }
        s.truncate(k);
    }
}
