//! Generator-side AST of Scheme programs and its renderer (tokens first, so that layouts can be varied
//! and token extents are known).

pub type Name = String;

#[derive(Clone, Debug, PartialEq)]
pub enum Datum {
    Int(i32),
    Ratio(i32, i32),
    /// an inexact real, written as given (e.g. "2.0", "-0.5")
    Real(String),
    Bool(bool),
    Sym(String),
    Str(String),
    Char(char),
    List(Vec<Datum>, Option<Box<Datum>>),
    Vector(Vec<Datum>),
}

#[derive(Clone, Debug, PartialEq)]
pub struct Formals {
    pub fixed: Vec<Name>,
    pub rest: Option<Name>,
}

#[derive(Clone, Debug, PartialEq)]
pub struct Def {
    pub name: Name,
    pub value: Expr,
    /// render as (define (name . formals) body...) when the value is a lambda
    pub sugar: bool,
}

#[derive(Clone, Debug, PartialEq)]
pub struct Body {
    pub defs: Vec<Def>,
    pub exprs: Vec<Expr>,
}

#[derive(Clone, Debug, PartialEq)]
pub enum Clause {
    /// (test)
    Test(Expr),
    /// (test e1 e2 ...)
    Then(Expr, Vec<Expr>),
    /// (test => receiver)
    Arrow(Expr, Expr),
}

#[derive(Clone, Debug, PartialEq)]
pub enum CaseBody {
    Exprs(Vec<Expr>),
    Arrow(Box<Expr>),
}

#[derive(Clone, Debug, PartialEq)]
pub enum Expr {
    Int(i32),
    Ratio(i32, i32),
    Real(String),
    Bool(bool),
    Str(String),
    /// a string literal written with its line breaks and tabs as themselves (only " and \ escaped)
    RawStr(String),
    Char(char),
    Quote(Datum),
    VecLit(Vec<Datum>),
    Var(Name),
    Set(Name, Box<Expr>),
    If(Box<Expr>, Box<Expr>, Option<Box<Expr>>),
    Lambda(Formals, Box<Body>),
    App(Box<Expr>, Vec<Expr>),
    /// (apply f a ... lst)
    Apply(Box<Expr>, Vec<Expr>, Box<Expr>),
    Begin(Vec<Expr>),
    Let(Vec<(Name, Expr)>, Box<Body>),
    LetStar(Vec<(Name, Expr)>, Box<Body>),
    Cond(Vec<Clause>, Option<Vec<Expr>>),
    Case(Box<Expr>, Vec<(Vec<Datum>, CaseBody)>, Option<CaseBody>),
    And(Vec<Expr>),
    Or(Vec<Expr>),
    When(Box<Expr>, Vec<Expr>),
    Unless(Box<Expr>, Vec<Expr>),
    /// (tick k e): host procedure recording k, returning e's value
    Tick(i32, Box<Expr>),
    /// (probe e)
    Probe(Box<Expr>),
    /// the sub-expression whose tokens are the "offending token(s)" of an injected fault
    Marked(Box<Expr>),
}

#[derive(Clone, Debug, PartialEq)]
pub enum Form {
    Define(Def),
    Expr(Expr),
    /// verbatim text (define-syntax, ...) that the reference evaluator does not interpret
    Raw(String),
    /// (import set ...)
    Import(Vec<ImportSpec>),
}

/// one import set: a library, optionally prefixed
#[derive(Clone, Debug, PartialEq)]
pub struct ImportSpec {
    /// library name without parentheses, e.g. "my l1" or "scheme base"
    pub lib: String,
    pub prefix: Option<String>,
}

impl ImportSpec {
    pub fn plain(lib: &str) -> ImportSpec {
        ImportSpec { lib: lib.to_string(), prefix: None }
    }
    pub fn render(&self) -> String {
        match &self.prefix {
            Some(p) => format!("(prefix ({}) {})", self.lib, p),
            None => format!("({})", self.lib),
        }
    }
}

/// a library definition of the generator
#[derive(Clone, Debug, PartialEq)]
pub struct LibDef {
    pub name: String,
    pub imports: Vec<ImportSpec>,
    /// (internal name, external name)
    pub exports: Vec<(String, String)>,
    pub body: Vec<Form>,
}

impl LibDef {
    pub fn render(&self) -> String {
        let imports: String = self.imports.iter().map(|i| format!(" {}", i.render())).collect();
        let exports: String = self
            .exports
            .iter()
            .map(|(i, e)| if i == e { format!(" {}", i) } else { format!(" (rename {} {})", i, e) })
            .collect();
        // an import form among the body forms is a further import declaration of the library: the body is split there
        let mut decls = String::new();
        let mut group = String::new();
        for f in &self.body {
            if let Form::Import(specs) = f {
                if !group.is_empty() {
                    decls.push_str(&format!("\n  (begin{})", group));
                    group.clear();
                }
                decls.push_str(&format!("\n  (import{})", specs.iter().map(|i| format!(" {}", i.render())).collect::<String>()));
            } else {
                group.push_str(&format!("\n    {}", render_form(f)));
            }
        }
        if !group.is_empty() || decls.is_empty() {
            decls.push_str(&format!("\n  (begin{})", group));
        }
        format!("(define-library ({})\n  (import{})\n  (export{}){})\n", self.name, imports, exports, decls)
    }
}

pub fn var(n: &str) -> Expr {
    Expr::Var(n.to_string())
}
pub fn app(f: &str, args: Vec<Expr>) -> Expr {
    Expr::App(Box::new(var(f)), args)
}
pub fn body1(e: Expr) -> Box<Body> {
    Box::new(Body { defs: vec![], exprs: vec![e] })
}

// ------------------------------------------------------------------------------------
// tokens

#[derive(Clone, Debug, PartialEq)]
pub struct Tok {
    pub text: String,
    /// 1 = inside a Marked expression
    pub mark: u8,
}

fn t(out: &mut Vec<Tok>, s: &str, mark: u8) {
    out.push(Tok { text: s.to_string(), mark });
}

pub fn str_literal(s: &str) -> String {
    let mut o = String::from("\"");
    for c in s.chars() {
        match c {
            '"' => o.push_str("\\\""),
            '\\' => o.push_str("\\\\"),
            '\n' => o.push_str("\\n"),
            '\t' => o.push_str("\\t"),
            '\r' => o.push_str("\\r"),
            c => o.push(c),
        }
    }
    o.push('"');
    o
}

pub fn datum_tokens(d: &Datum, out: &mut Vec<Tok>, m: u8) {
    match d {
        Datum::Int(i) => t(out, &i.to_string(), m),
        Datum::Ratio(a, b) => t(out, &format!("{}/{}", a, b), m),
        Datum::Real(x) => t(out, x, m),
        Datum::Bool(b) => t(out, if *b { "#t" } else { "#f" }, m),
        Datum::Sym(s) => t(out, s, m),
        Datum::Str(s) => t(out, &str_literal(s), m),
        Datum::Char(c) => t(out, &format!("#\\{}", c), m),
        Datum::List(items, tail) => {
            t(out, "(", m);
            for i in items {
                datum_tokens(i, out, m);
            }
            if let Some(tl) = tail {
                t(out, ".", m);
                datum_tokens(tl, out, m);
            }
            t(out, ")", m);
        }
        Datum::Vector(items) => {
            t(out, "#(", m);
            for i in items {
                datum_tokens(i, out, m);
            }
            t(out, ")", m);
        }
    }
}

fn formals_tokens(f: &Formals, out: &mut Vec<Tok>, m: u8) {
    if f.fixed.is_empty() {
        if let Some(r) = &f.rest {
            t(out, r, m);
            return;
        }
    }
    t(out, "(", m);
    for n in &f.fixed {
        t(out, n, m);
    }
    if let Some(r) = &f.rest {
        t(out, ".", m);
        t(out, r, m);
    }
    t(out, ")", m);
}

fn def_tokens(d: &Def, out: &mut Vec<Tok>, m: u8) {
    t(out, "(", m);
    t(out, "define", m);
    match (&d.value, d.sugar) {
        (Expr::Lambda(f, b), true) => {
            t(out, "(", m);
            t(out, &d.name, m);
            for n in &f.fixed {
                t(out, n, m);
            }
            if let Some(r) = &f.rest {
                t(out, ".", m);
                t(out, r, m);
            }
            t(out, ")", m);
            body_tokens(b, out, m);
        }
        (v, _) => {
            t(out, &d.name, m);
            expr_tokens(v, out, m);
        }
    }
    t(out, ")", m);
}

fn body_tokens(b: &Body, out: &mut Vec<Tok>, m: u8) {
    for d in &b.defs {
        def_tokens(d, out, m);
    }
    for e in &b.exprs {
        expr_tokens(e, out, m);
    }
}

fn seq(head: &str, es: &[Expr], out: &mut Vec<Tok>, m: u8) {
    t(out, "(", m);
    t(out, head, m);
    for e in es {
        expr_tokens(e, out, m);
    }
    t(out, ")", m);
}

fn case_body_tokens(b: &CaseBody, out: &mut Vec<Tok>, m: u8) {
    match b {
        CaseBody::Exprs(es) => {
            for e in es {
                expr_tokens(e, out, m);
            }
        }
        CaseBody::Arrow(r) => {
            t(out, "=>", m);
            expr_tokens(r, out, m);
        }
    }
}

pub fn expr_tokens(e: &Expr, out: &mut Vec<Tok>, m: u8) {
    match e {
        Expr::Int(i) => t(out, &i.to_string(), m),
        Expr::Ratio(a, b) => t(out, &format!("{}/{}", a, b), m),
        Expr::Real(s) => t(out, s, m),
        Expr::Bool(b) => t(out, if *b { "#t" } else { "#f" }, m),
        Expr::Str(s) => t(out, &str_literal(s), m),
        Expr::RawStr(s) => t(out, &format!("\"{}\"", s.replace('\\', "\\\\").replace('"', "\\\"")), m),
        Expr::Char(c) => t(out, &format!("#\\{}", c), m),
        Expr::Quote(d) => {
            t(out, "'", m);
            datum_tokens(d, out, m);
        }
        Expr::VecLit(items) => {
            t(out, "#(", m);
            for i in items {
                datum_tokens(i, out, m);
            }
            t(out, ")", m);
        }
        Expr::Var(n) => t(out, n, m),
        Expr::Set(n, v) => {
            t(out, "(", m);
            t(out, "set!", m);
            t(out, n, m);
            expr_tokens(v, out, m);
            t(out, ")", m);
        }
        Expr::If(c, a, b) => {
            t(out, "(", m);
            t(out, "if", m);
            expr_tokens(c, out, m);
            expr_tokens(a, out, m);
            if let Some(b) = b {
                expr_tokens(b, out, m);
            }
            t(out, ")", m);
        }
        Expr::Lambda(f, b) => {
            t(out, "(", m);
            t(out, "lambda", m);
            formals_tokens(f, out, m);
            body_tokens(b, out, m);
            t(out, ")", m);
        }
        Expr::App(f, args) => {
            t(out, "(", m);
            expr_tokens(f, out, m);
            for a in args {
                expr_tokens(a, out, m);
            }
            t(out, ")", m);
        }
        Expr::Apply(f, args, last) => {
            t(out, "(", m);
            t(out, "apply", m);
            expr_tokens(f, out, m);
            for a in args {
                expr_tokens(a, out, m);
            }
            expr_tokens(last, out, m);
            t(out, ")", m);
        }
        Expr::Begin(es) => seq("begin", es, out, m),
        Expr::Let(bs, b) | Expr::LetStar(bs, b) => {
            t(out, "(", m);
            t(out, if matches!(e, Expr::Let(..)) { "let" } else { "let*" }, m);
            t(out, "(", m);
            for (n, v) in bs {
                t(out, "(", m);
                t(out, n, m);
                expr_tokens(v, out, m);
                t(out, ")", m);
            }
            t(out, ")", m);
            body_tokens(b, out, m);
            t(out, ")", m);
        }
        Expr::Cond(clauses, els) => {
            t(out, "(", m);
            t(out, "cond", m);
            for c in clauses {
                t(out, "(", m);
                match c {
                    Clause::Test(x) => expr_tokens(x, out, m),
                    Clause::Then(x, es) => {
                        expr_tokens(x, out, m);
                        for e in es {
                            expr_tokens(e, out, m);
                        }
                    }
                    Clause::Arrow(x, r) => {
                        expr_tokens(x, out, m);
                        t(out, "=>", m);
                        expr_tokens(r, out, m);
                    }
                }
                t(out, ")", m);
            }
            if let Some(es) = els {
                t(out, "(", m);
                t(out, "else", m);
                for e in es {
                    expr_tokens(e, out, m);
                }
                t(out, ")", m);
            }
            t(out, ")", m);
        }
        Expr::Case(k, clauses, els) => {
            t(out, "(", m);
            t(out, "case", m);
            expr_tokens(k, out, m);
            for (keys, b) in clauses {
                t(out, "(", m);
                t(out, "(", m);
                for d in keys {
                    datum_tokens(d, out, m);
                }
                t(out, ")", m);
                case_body_tokens(b, out, m);
                t(out, ")", m);
            }
            if let Some(b) = els {
                t(out, "(", m);
                t(out, "else", m);
                case_body_tokens(b, out, m);
                t(out, ")", m);
            }
            t(out, ")", m);
        }
        Expr::And(es) => seq("and", es, out, m),
        Expr::Or(es) => seq("or", es, out, m),
        Expr::When(c, es) | Expr::Unless(c, es) => {
            t(out, "(", m);
            t(out, if matches!(e, Expr::When(..)) { "when" } else { "unless" }, m);
            expr_tokens(c, out, m);
            for e in es {
                expr_tokens(e, out, m);
            }
            t(out, ")", m);
        }
        Expr::Tick(k, v) => {
            t(out, "(", m);
            t(out, "tick", m);
            t(out, &k.to_string(), m);
            expr_tokens(v, out, m);
            t(out, ")", m);
        }
        Expr::Probe(v) => {
            t(out, "(", m);
            t(out, "probe", m);
            expr_tokens(v, out, m);
            t(out, ")", m);
        }
        Expr::Marked(inner) => expr_tokens(inner, out, 1),
    }
}

pub fn form_tokens(f: &Form) -> Vec<Tok> {
    let mut out = vec![];
    match f {
        Form::Define(d) => def_tokens(d, &mut out, 0),
        Form::Expr(e) => expr_tokens(e, &mut out, 0),
        Form::Raw(s) => t(&mut out, s, 0),
        Form::Import(specs) => {
            t(&mut out, "(", 0);
            t(&mut out, "import", 0);
            for sp in specs {
                t(&mut out, &sp.render(), 0);
            }
            t(&mut out, ")", 0);
        }
    }
    out
}

/// plain one-line rendering: single spaces, none after ( #( ' and none before )
pub fn join(toks: &[Tok]) -> String {
    let mut s = String::new();
    for (i, tk) in toks.iter().enumerate() {
        if i > 0 {
            let prev = toks[i - 1].text.as_str();
            if !(prev == "(" || prev == "#(" || prev == "'" || tk.text == ")") {
                s.push(' ');
            }
        }
        s.push_str(&tk.text);
    }
    s
}

pub fn render_form(f: &Form) -> String {
    join(&form_tokens(f))
}
pub fn render_expr(e: &Expr) -> String {
    let mut out = vec![];
    expr_tokens(e, &mut out, 0);
    join(&out)
}
pub fn render_datum(d: &Datum) -> String {
    let mut out = vec![];
    datum_tokens(d, &mut out, 0);
    join(&out)
}

// ------------------------------------------------------------------------------------
// layouts (C15, C17, C18)

#[derive(Clone, Debug, PartialEq)]
pub struct Extent {
    /// cursor of the first character (1-based line, column)
    pub start: [u32; 2],
    /// cursor after the last character
    pub end: [u32; 2],
}

impl Extent {
    pub fn contains(&self, loc: [u32; 2]) -> bool {
        let ge = loc[0] > self.start[0] || (loc[0] == self.start[0] && loc[1] >= self.start[1]);
        let le = loc[0] < self.end[0] || (loc[0] == self.end[0] && loc[1] <= self.end[1]);
        ge && le
    }
}

pub struct Laid {
    pub text: String,
    /// extent of every token, in order
    pub tokens: Vec<Extent>,
}

/// Lay out tokens with the given separators (sep[i] goes before token i; sep[0] is leading text).
/// An empty separator is only honoured where adjacency is lexically safe.
pub fn lay_out(toks: &[Tok], seps: &[String]) -> Laid {
    let mut text = String::new();
    let (mut line, mut col) = (1u32, 1u32);
    let mut push = |s: &str, text: &mut String, line: &mut u32, col: &mut u32| {
        for c in s.chars() {
            text.push(c);
            if c == '\n' {
                *line += 1;
                *col = 1;
            } else {
                *col += 1;
            }
        }
    };
    let mut extents = vec![];
    for (i, tk) in toks.iter().enumerate() {
        let mut sep = seps.get(i).cloned().unwrap_or_else(|| " ".to_string());
        if i == 0 {
            // leading separator may be anything
        } else if sep.is_empty() {
            let prev = toks[i - 1].text.as_str();
            let safe = prev == "(" || prev == "#(" || prev == "'" || prev == ")" || prev.ends_with('"') || tk.text == ")" || tk.text == "(" || tk.text.starts_with('"');
            if !safe {
                sep = " ".to_string();
            }
        }
        push(&sep, &mut text, &mut line, &mut col);
        let start = [line, col];
        push(&tk.text, &mut text, &mut line, &mut col);
        extents.push(Extent { start, end: [line, col] });
    }
    Laid { text, tokens: extents }
}
