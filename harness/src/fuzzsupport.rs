//! glue for the cargo-fuzz targets in /verif/fuzz: verdicts against the known-findings list, choice-sequence decoding
use crate::runner::{load_findings, Chooser, Finding, Report};
use std::sync::OnceLock;

static KNOWN: OnceLock<Vec<Finding>> = OnceLock::new();

pub fn nesting(text: &str) -> usize {
    let (mut d, mut m) = (0usize, 0usize);
    for c in text.chars() {
        if c == '(' {
            d += 1;
            m = m.max(d);
        } else if c == ')' {
            d = d.saturating_sub(1);
        }
    }
    m
}

/// abort (so that libFuzzer saves the input) if the report carries a failure that is not a recorded finding
pub fn verdict(prop: &str, rep: &Report) {
    let known = KNOWN.get_or_init(load_findings);
    for f in &rep.fails {
        let listed = known.iter().any(|k| k.property == prop && k.status == "known" && k.signature == f.sig);
        if !listed {
            eprintln!("FUZZ-VIOLATION property={} sig={}\n  case: {}\n  detail: {}", prop, f.sig, rep.key, f.detail);
            std::process::abort();
        }
    }
}

pub const CHOICE_PROPS: [&str; 9] = ["C01", "C03", "C04", "C05", "C08", "C11", "C13", "C16", "C19"];

pub fn decode_choices(data: &[u8]) -> (usize, Vec<u32>) {
    if data.is_empty() {
        return (0, vec![]);
    }
    let which = data[0] as usize % CHOICE_PROPS.len();
    let choices: Vec<u32> = data[1..].chunks(4).map(|c| {
        let mut b = [0u8; 4];
        b[..c.len()].copy_from_slice(c);
        // big-endian so that the leading byte decides the branch taken by Chooser::below
        u32::from_be_bytes(b)
    }).collect();
    (which, choices)
}

pub fn run_choices(which: usize, choices: &[u32]) -> (&'static str, Report) {
    let mut ch = Chooser::new(choices);
    let prop = CHOICE_PROPS[which];
    let rep = match prop {
        "C01" => crate::checks::c01::case(&mut ch, 4),
        "C03" => crate::checks::c03::case(&mut ch, 30),
        "C04" => crate::checks::c04::random_case(&mut ch),
        "C05" => crate::checks::c05::random_case(&mut ch, 4),
        "C08" => {
            let kind = *ch.pick(&crate::faults::KINDS);
            let context = *ch.pick(&crate::faults::CONTEXTS_C08);
            crate::checks::c08::judge(&crate::checks::c08::fault_program(&mut ch, kind, context, 3))
        }
        "C11" => {
            let p = *ch.pick(&crate::checks::c11::PROCS);
            crate::checks::c11::judge_case(&crate::checks::c11::gen_case(&mut ch, p))
        }
        "C13" => crate::checks::c13::judge(&crate::checks::c13::gen_case(&mut ch)),
        "C16" => crate::checks::c16::tree_case(&mut ch),
        _ => crate::checks::c19::judge(&crate::checks::c19::gen_pair(&mut ch)),
    };
    (prop, rep)
}

pub fn choices_target(data: &[u8]) {
    let (which, choices) = decode_choices(data);
    let (prop, rep) = run_choices(which, &choices);
    verdict(prop, &rep);
}

/// replay of a libFuzzer artifact outside libFuzzer
pub fn replay_bytes(target: &str, data: &[u8]) -> (&'static str, Report) {
    match target {
        "c07_text" => {
            let text = String::from_utf8_lossy(data).to_string();
            ("C07", crate::checks::c07::judge_text(&text, crate::sut::Budget::FUZZ))
        }
        "c06_lex" => {
            let text: String = data.iter().map(|b| if *b == b'\n' || (*b >= 32 && *b < 127) { *b as char } else { ' ' }).collect();
            let (_, f, _) = crate::checks::c06::judge_lex(&text);
            let mut rep = Report::new(format!("{:?}", text));
            if let Some((s, d)) = f {
                rep.fail(s, d);
            }
            ("C06", rep)
        }
        "c18_bracket" => {
            let text = String::from_utf8_lossy(data).to_string();
            let (_, _, f) = crate::checks::c18::judge_complete(&text);
            let mut rep = Report::new(format!("{:?}", text));
            if let Some((s, d)) = f {
                rep.fail(s, d);
            }
            ("C18", rep)
        }
        _ => {
            let (which, choices) = decode_choices(data);
            run_choices(which, &choices)
        }
    }
}
