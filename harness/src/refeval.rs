//! Reference evaluator over the generator AST (never parses text, never calls the interpreter).
//! Core forms, the derived forms implemented directly from their R7RS semantics, a store for vectors
//! with identity and a mutable/literal flag, the list library, exact numbers, error kinds.
use crate::ast::*;
use crate::refnum::{ex, RNum};
use crate::sut::{SNum, SVal};
use std::cell::RefCell;
use std::collections::HashMap;
use std::rc::Rc;

#[derive(Clone, Debug)]
pub enum RVal {
    Num(RNum),
    Bool(bool),
    Str(String),
    Char(char),
    Sym(String),
    Nil,
    Pair(Box<RVal>, Box<RVal>),
    Vector(usize),
    Closure(Rc<Closure>),
    Prim(&'static str),
    /// unspecified value: matches anything
    Void,
}

pub struct Closure {
    pub formals: Formals,
    pub body: Body,
    pub env: Rc<Frame>,
}

impl std::fmt::Debug for Closure {
    fn fmt(&self, f: &mut std::fmt::Formatter<'_>) -> std::fmt::Result {
        write!(f, "#<closure>")
    }
}

pub struct Frame {
    pub vars: RefCell<Vec<(Name, RVal)>>,
    pub parent: Option<Rc<Frame>>,
}

impl Frame {
    fn new(parent: Option<Rc<Frame>>) -> Rc<Frame> {
        Rc::new(Frame { vars: RefCell::new(vec![]), parent })
    }
    fn define(&self, n: &str, v: RVal) {
        let mut vs = self.vars.borrow_mut();
        if let Some(slot) = vs.iter_mut().find(|(k, _)| k == n) {
            slot.1 = v;
        } else {
            vs.push((n.to_string(), v));
        }
    }
    fn get(&self, n: &str) -> Option<RVal> {
        if let Some((_, v)) = self.vars.borrow().iter().find(|(k, _)| k == n) {
            return Some(v.clone());
        }
        self.parent.as_ref().and_then(|p| p.get(n))
    }
    fn set(&self, n: &str, v: RVal) -> bool {
        {
            let mut vs = self.vars.borrow_mut();
            if let Some(slot) = vs.iter_mut().find(|(k, _)| k == n) {
                slot.1 = v;
                return true;
            }
        }
        match &self.parent {
            Some(p) => p.set(n, v),
            None => false,
        }
    }
}

#[derive(Clone, Debug, PartialEq)]
pub enum RErr {
    NotProcedure,
    Arity,
    Unbound(String),
    WrongType(&'static str),
    VecIndex,
    Immutable,
    DivZero,
    NegativeLength,
    /// the text of the form is not a well-formed expression / definition (raw forms of the file and session checks)
    Syntax,
    /// "it is an error" situations of the list library (list too short ...): any error is acceptable
    Other(String),
    /// the program left the class the model covers (integers beyond i32, inexact arithmetic ...): not judged
    OutOfClass(String),
    Fuel,
}

impl RErr {
    /// does an interpreter error with this tag/arg match?
    pub fn matches(&self, tag: &str, arg: &str) -> bool {
        match self {
            RErr::NotProcedure => tag == "Logic::TypeMisMatch" && arg == "Procedure",
            RErr::Arity => tag == "Logic::ArgumentMissMatch",
            RErr::Unbound(n) => tag == "Logic::UnboundedSymbol" && arg == n,
            RErr::WrongType(t) => tag == "Logic::TypeMisMatch" && (arg == *t || *t == "*"),
            RErr::VecIndex => tag == "Logic::VectorIndexOutOfBounds",
            RErr::Immutable => tag == "Logic::RequiresMutable",
            RErr::DivZero => tag == "Logic::DivisionByZero",
            RErr::NegativeLength => tag == "Logic::NegativeLength",
            RErr::Syntax => tag.starts_with("Syntax::"),
            RErr::Other(_) => tag.starts_with("Logic::"),
            RErr::OutOfClass(_) | RErr::Fuel => true,
        }
    }
    pub fn name(&self) -> String {
        match self {
            RErr::Unbound(n) => format!("Unbound({})", n),
            RErr::WrongType(t) => format!("WrongType({})", t),
            RErr::Other(s) => format!("Error({})", s),
            RErr::OutOfClass(s) => format!("OutOfClass({})", s),
            o => format!("{:?}", o),
        }
    }
}

#[derive(Clone, Copy, Debug, PartialEq)]
pub struct Order {
    pub operator_first: bool,
    pub left_to_right: bool,
}

pub const ORDERS: [Order; 4] = [
    Order { operator_first: true, left_to_right: true },
    Order { operator_first: false, left_to_right: true },
    Order { operator_first: true, left_to_right: false },
    Order { operator_first: false, left_to_right: false },
];

pub struct VecObj {
    pub items: Vec<RVal>,
    pub mutable: bool,
}

pub struct Machine {
    pub global: Rc<Frame>,
    pub store: Vec<VecObj>,
    pub trace: Vec<i32>,
    pub order: Order,
    pub fuel: u64,
    pub depth: u32,
    /// text written by display/newline
    pub output: String,
    /// library definitions known to the program, and their (single) instances
    pub libs: HashMap<String, LibDef>,
    pub instances: HashMap<String, Vec<(String, RVal)>>,
    pub loading: Vec<String>,
    /// model the interpreter's recorded behaviour "one instance per import" instead of one per program
    pub instance_per_import: bool,
}

pub const PRIMS: &[&str] = &[
    "car", "cdr", "cons", "list", "null?", "pair?", "list?", "not", "eqv?", "eq?", "equal?", "+", "-", "*", "/", "=", "<", ">",
    "<=", ">=", "abs", "min", "max", "floor", "ceiling", "floor-quotient", "floor-remainder", "vector", "make-vector", "vector-ref",
    "vector-set!", "vector-length", "vector?", "append", "map", "for-each", "fold-left", "fold-right", "list-tail", "list-ref",
    "last-pair", "memq", "memv", "apply", "make-list", "procedure?", "boolean?", "number?", "symbol?", "string?", "char?",
    "caar", "cadr", "cdar", "cddr", "caaar", "caadr", "cadar", "caddr", "cdaar", "cdadr", "cddar", "cdddr", "display", "newline",
    "tick", "probe", "boolean=?",
];

type R<T> = Result<T, RErr>;

fn list_to_vec(v: &RVal) -> Option<(Vec<RVal>, RVal)> {
    // returns elements and the final tail (Nil for proper lists)
    let mut out = vec![];
    let mut cur = v;
    loop {
        match cur {
            RVal::Pair(a, d) => {
                out.push((**a).clone());
                cur = d;
            }
            other => return Some((out, other.clone())),
        }
    }
}

pub fn vec_to_list(items: Vec<RVal>, tail: RVal) -> RVal {
    let mut acc = tail;
    for it in items.into_iter().rev() {
        acc = RVal::Pair(Box::new(it), Box::new(acc));
    }
    acc
}

fn proper_list(v: &RVal) -> Option<Vec<RVal>> {
    let (items, tail) = list_to_vec(v)?;
    match tail {
        RVal::Nil => Some(items),
        _ => None,
    }
}

impl Machine {
    pub fn new(order: Order) -> Machine {
        let g = Frame::new(None);
        for p in PRIMS {
            g.define(p, RVal::Prim(p));
        }
        Machine { global: g, store: vec![], trace: vec![], order, fuel: 2_000_000, depth: 0, output: String::new(), libs: HashMap::new(), instances: HashMap::new(), loading: vec![], instance_per_import: false }
    }

    pub fn datum(&mut self, d: &Datum) -> RVal {
        match d {
            Datum::Int(i) => RVal::Num(RNum::int(*i as i128)),
            Datum::Ratio(a, b) => RVal::Num(ex(*a as i128, *b as i128)),
            Datum::Real(x) => RVal::Num(RNum::Re(x.parse::<f32>().unwrap_or(f32::NAN))),
            Datum::Bool(b) => RVal::Bool(*b),
            Datum::Sym(s) => RVal::Sym(s.clone()),
            Datum::Str(s) => RVal::Str(s.clone()),
            Datum::Char(c) => RVal::Char(*c),
            Datum::List(items, tail) => {
                let iv: Vec<RVal> = items.iter().map(|i| self.datum(i)).collect();
                let t = match tail {
                    Some(t) => self.datum(t),
                    None => RVal::Nil,
                };
                vec_to_list(iv, t)
            }
            Datum::Vector(items) => {
                let iv: Vec<RVal> = items.iter().map(|i| self.datum(i)).collect();
                self.store.push(VecObj { items: iv, mutable: false });
                RVal::Vector(self.store.len() - 1)
            }
        }
    }

    /// evaluate one top-level form: Ok(None) for definitions
    pub fn eval_form(&mut self, f: &Form) -> R<Option<RVal>> {
        match f {
            Form::Define(d) => {
                let g = self.global.clone();
                let v = self.eval(&d.value, &g)?;
                g.define(&d.name, v);
                Ok(None)
            }
            Form::Expr(e) => {
                let g = self.global.clone();
                Ok(Some(self.eval(e, &g)?))
            }
            Form::Raw(_) => Err(RErr::OutOfClass("raw form".into())),
            Form::Import(specs) => {
                let g = self.global.clone();
                for sp in specs {
                    self.import_into(&g, sp)?;
                }
                Ok(None)
            }
        }
    }

    /// a machine whose program frame starts empty (bindings only through imports)
    pub fn bare(order: Order) -> Machine {
        let mut m = Machine::new(order);
        m.global = Frame::new(None);
        m
    }

    fn import_into(&mut self, frame: &Rc<Frame>, sp: &ImportSpec) -> R<()> {
        let exports = self.instance(&sp.lib)?;
        for (n, v) in exports {
            let name = match &sp.prefix {
                Some(p) => format!("{}{}", p, n),
                None => n,
            };
            frame.define(&name, v);
        }
        Ok(())
    }

    /// the exports of a library; evaluated once per program
    fn instance(&mut self, lib: &str) -> R<Vec<(String, RVal)>> {
        if lib == "scheme base" || lib == "scheme write" {
            return Ok(PRIMS.iter().filter(|p| !matches!(**p, "tick" | "probe")).map(|p| (p.to_string(), RVal::Prim(p))).collect());
        }
        if !self.instance_per_import {
            if let Some(e) = self.instances.get(lib) {
                return Ok(e.clone());
            }
        }
        let def = match self.libs.get(lib) {
            Some(d) => d.clone(),
            None => return Err(RErr::Other(format!("library ({}) not found", lib))),
        };
        if self.loading.contains(&lib.to_string()) {
            return Err(RErr::Other("cyclic import".into()));
        }
        self.loading.push(lib.to_string());
        let frame = Frame::new(None);
        let mut result = Ok(());
        for sp in &def.imports {
            if let Err(e) = self.import_into(&frame, sp) {
                result = Err(e);
                break;
            }
        }
        if result.is_ok() {
            for f in &def.body {
                let r = match f {
                    Form::Define(d) => match self.eval(&d.value, &frame) {
                        Ok(v) => {
                            frame.define(&d.name, v);
                            Ok(())
                        }
                        Err(e) => Err(e),
                    },
                    Form::Expr(e) => self.eval(e, &frame).map(|_| ()),
                    // a further import declaration between two parts of the body
                    Form::Import(specs) => {
                        let mut r = Ok(());
                        for sp in specs {
                            if let Err(e) = self.import_into(&frame, sp) {
                                r = Err(e);
                                break;
                            }
                        }
                        r
                    }
                    // a syntax definition private to the library (the generated bodies do not use it themselves)
                    Form::Raw(t) if t.starts_with("(define-syntax") => Ok(()),
                    _ => Err(RErr::OutOfClass("library body form".into())),
                };
                if let Err(e) = r {
                    result = Err(e);
                    break;
                }
            }
        }
        self.loading.pop();
        result?;
        let mut exports = vec![];
        for (internal, external) in &def.exports {
            match frame.get(internal) {
                Some(v) => exports.push((external.clone(), v)),
                None => return Err(RErr::Unbound(internal.clone())),
            }
        }
        self.instances.insert(lib.to_string(), exports.clone());
        Ok(exports)
    }

    fn tick_fuel(&mut self) -> R<()> {
        if self.fuel == 0 {
            return Err(RErr::Fuel);
        }
        self.fuel -= 1;
        Ok(())
    }

    fn eval_body(&mut self, b: &Body, env: &Rc<Frame>) -> R<RVal> {
        for d in &b.defs {
            let v = self.eval(&d.value, env)?;
            env.define(&d.name, v);
        }
        let mut last = RVal::Void;
        for e in &b.exprs {
            last = self.eval(e, env)?;
        }
        Ok(last)
    }

    fn eval_seq(&mut self, es: &[Expr], env: &Rc<Frame>) -> R<RVal> {
        let mut last = RVal::Void;
        for e in es {
            last = self.eval(e, env)?;
        }
        Ok(last)
    }

    fn truthy(v: &RVal) -> bool {
        !matches!(v, RVal::Bool(false))
    }

    fn eval_call(&mut self, f: &Expr, args: &[Expr], env: &Rc<Frame>) -> R<(RVal, Vec<RVal>)> {
        let mut fv = None;
        if self.order.operator_first {
            fv = Some(self.eval(f, env)?);
        }
        let mut av: Vec<Option<RVal>> = vec![None; args.len()];
        let idx: Vec<usize> = if self.order.left_to_right { (0..args.len()).collect() } else { (0..args.len()).rev().collect() };
        for i in idx {
            av[i] = Some(self.eval(&args[i], env)?);
        }
        if fv.is_none() {
            fv = Some(self.eval(f, env)?);
        }
        Ok((fv.unwrap(), av.into_iter().map(|a| a.unwrap()).collect()))
    }

    pub fn eval(&mut self, e: &Expr, env: &Rc<Frame>) -> R<RVal> {
        self.tick_fuel()?;
        if self.depth > 1500 {
            return Err(RErr::Fuel);
        }
        self.depth += 1;
        let r = self.eval_inner(e, env);
        self.depth -= 1;
        r
    }

    fn eval_inner(&mut self, e: &Expr, env: &Rc<Frame>) -> R<RVal> {
        match e {
            Expr::Int(i) => Ok(RVal::Num(RNum::int(*i as i128))),
            Expr::Ratio(a, b) => Ok(RVal::Num(ex(*a as i128, *b as i128))),
            Expr::Real(s) => Ok(RVal::Num(RNum::Re(s.parse::<f32>().map_err(|_| RErr::OutOfClass("real literal".into()))?))),
            Expr::Bool(b) => Ok(RVal::Bool(*b)),
            Expr::Str(s) | Expr::RawStr(s) => Ok(RVal::Str(s.clone())),
            Expr::Char(c) => Ok(RVal::Char(*c)),
            Expr::Quote(d) => Ok(self.datum(d)),
            Expr::VecLit(items) => Ok(self.datum(&Datum::Vector(items.clone()))),
            Expr::Var(n) => env.get(n).ok_or_else(|| RErr::Unbound(n.clone())),
            Expr::Marked(inner) => self.eval(inner, env),
            Expr::Set(n, v) => {
                let val = self.eval(v, env)?;
                if env.set(n, val) {
                    Ok(RVal::Void)
                } else {
                    Err(RErr::Unbound(n.clone()))
                }
            }
            Expr::If(c, a, b) => {
                let cv = self.eval(c, env)?;
                if Self::truthy(&cv) {
                    self.eval(a, env)
                } else {
                    match b {
                        Some(b) => self.eval(b, env),
                        None => Ok(RVal::Void),
                    }
                }
            }
            Expr::Lambda(f, b) => Ok(RVal::Closure(Rc::new(Closure { formals: f.clone(), body: (**b).clone(), env: env.clone() }))),
            Expr::App(f, args) => {
                let (fv, av) = self.eval_call(f, args, env)?;
                self.apply(fv, av)
            }
            Expr::Apply(f, args, last) => {
                // (apply f a ... lst): `apply` is an ordinary procedure, so its operands follow the operand order
                let mut all: Vec<Expr> = vec![(**f).clone()];
                all.extend(args.iter().cloned());
                all.push((**last).clone());
                let (pv, av) = self.eval_call(&Expr::Var("apply".into()), &all, env)?;
                self.apply(pv, av)
            }
            Expr::Begin(es) => self.eval_seq(es, env),
            Expr::Let(bs, body) => {
                let mut vals: Vec<Option<RVal>> = vec![None; bs.len()];
                let idx: Vec<usize> = if self.order.left_to_right { (0..bs.len()).collect() } else { (0..bs.len()).rev().collect() };
                for i in idx {
                    vals[i] = Some(self.eval(&bs[i].1, env)?);
                }
                let fr = Frame::new(Some(env.clone()));
                for (i, (n, _)) in bs.iter().enumerate() {
                    fr.define(n, vals[i].take().unwrap());
                }
                self.eval_body(body, &fr)
            }
            Expr::LetStar(bs, body) => {
                let mut cur = env.clone();
                for (n, v) in bs {
                    let val = self.eval(v, &cur)?;
                    let fr = Frame::new(Some(cur.clone()));
                    fr.define(n, val);
                    cur = fr;
                }
                let fr = Frame::new(Some(cur));
                self.eval_body(body, &fr)
            }
            Expr::Cond(clauses, els) => {
                for c in clauses {
                    match c {
                        Clause::Test(t) => {
                            let v = self.eval(t, env)?;
                            if Self::truthy(&v) {
                                return Ok(v);
                            }
                        }
                        Clause::Then(t, es) => {
                            let v = self.eval(t, env)?;
                            if Self::truthy(&v) {
                                return self.eval_seq(es, env);
                            }
                        }
                        Clause::Arrow(t, r) => {
                            let v = self.eval(t, env)?;
                            if Self::truthy(&v) {
                                let rv = self.eval(r, env)?;
                                return self.apply(rv, vec![v]);
                            }
                        }
                    }
                }
                match els {
                    Some(es) => self.eval_seq(es, env),
                    None => Ok(RVal::Void),
                }
            }
            Expr::Case(k, clauses, els) => {
                let kv = self.eval(k, env)?;
                for (keys, body) in clauses {
                    let mut hit = false;
                    for d in keys {
                        let dv = self.datum(d);
                        if self.eqv(&kv, &dv) {
                            hit = true;
                            break;
                        }
                    }
                    if hit {
                        return self.case_body(body, kv, env);
                    }
                }
                match els {
                    Some(b) => self.case_body(b, kv, env),
                    None => Ok(RVal::Void),
                }
            }
            Expr::And(es) => {
                let mut last = RVal::Bool(true);
                for e in es {
                    last = self.eval(e, env)?;
                    if !Self::truthy(&last) {
                        return Ok(last);
                    }
                }
                Ok(last)
            }
            Expr::Or(es) => {
                let mut last = RVal::Bool(false);
                for e in es {
                    last = self.eval(e, env)?;
                    if Self::truthy(&last) {
                        return Ok(last);
                    }
                }
                Ok(last)
            }
            Expr::When(c, es) => {
                let cv = self.eval(c, env)?;
                if Self::truthy(&cv) {
                    self.eval_seq(es, env)
                } else {
                    Ok(RVal::Void)
                }
            }
            Expr::Unless(c, es) => {
                let cv = self.eval(c, env)?;
                if !Self::truthy(&cv) {
                    self.eval_seq(es, env)
                } else {
                    Ok(RVal::Void)
                }
            }
            Expr::Tick(k, v) => {
                // (tick k v) is a procedure call: operands k (a literal) and v
                let val = self.eval(v, env)?;
                self.trace.push(*k);
                Ok(val)
            }
            Expr::Probe(v) => self.eval(v, env),
        }
    }

    fn case_body(&mut self, b: &CaseBody, key: RVal, env: &Rc<Frame>) -> R<RVal> {
        match b {
            CaseBody::Exprs(es) => self.eval_seq(es, env),
            CaseBody::Arrow(r) => {
                let rv = self.eval(r, env)?;
                self.apply(rv, vec![key])
            }
        }
    }

    pub fn apply(&mut self, f: RVal, args: Vec<RVal>) -> R<RVal> {
        self.tick_fuel()?;
        match f {
            RVal::Closure(c) => {
                let n = c.formals.fixed.len();
                if args.len() < n || (args.len() > n && c.formals.rest.is_none()) {
                    return Err(RErr::Arity);
                }
                let fr = Frame::new(Some(c.env.clone()));
                let mut it = args.into_iter();
                for name in &c.formals.fixed {
                    fr.define(name, it.next().unwrap());
                }
                if let Some(r) = &c.formals.rest {
                    fr.define(r, vec_to_list(it.collect(), RVal::Nil));
                }
                self.eval_body(&c.body, &fr)
            }
            RVal::Prim(p) => self.prim(p, args),
            _ => Err(RErr::NotProcedure),
        }
    }

    pub fn eqv(&self, a: &RVal, b: &RVal) -> bool {
        match (a, b) {
            (RVal::Num(x), RVal::Num(y)) => match (x, y) {
                (RNum::Ex(..), RNum::Ex(..)) => x == y,
                (RNum::Re(p), RNum::Re(q)) => p == q,
                _ => false,
            },
            (RVal::Bool(x), RVal::Bool(y)) => x == y,
            (RVal::Char(x), RVal::Char(y)) => x == y,
            (RVal::Sym(x), RVal::Sym(y)) => x == y,
            (RVal::Nil, RVal::Nil) => true,
            (RVal::Vector(x), RVal::Vector(y)) => x == y,
            (RVal::Str(x), RVal::Str(y)) => x == y,
            _ => false,
        }
    }

    pub fn equal(&self, a: &RVal, b: &RVal) -> bool {
        match (a, b) {
            (RVal::Pair(a1, d1), RVal::Pair(a2, d2)) => self.equal(a1, a2) && self.equal(d1, d2),
            (RVal::Vector(x), RVal::Vector(y)) => {
                let (vx, vy) = (&self.store[*x].items, &self.store[*y].items);
                vx.len() == vy.len() && vx.iter().zip(vy.iter()).all(|(p, q)| self.equal(p, q))
            }
            _ => self.eqv(a, b),
        }
    }

    fn num(v: &RVal) -> R<RNum> {
        match v {
            RVal::Num(n) => Ok(*n),
            _ => Err(RErr::WrongType("Number")),
        }
    }
    fn exact(n: RNum) -> R<RNum> {
        match n {
            RNum::Ex(..) => Ok(n),
            RNum::Re(_) => Err(RErr::OutOfClass("inexact arithmetic".into())),
        }
    }
    fn check_rep(n: RNum) -> R<RNum> {
        if n.representable() {
            Ok(n)
        } else {
            Err(RErr::OutOfClass("exact number beyond i32".into()))
        }
    }
    fn int_index(v: &RVal) -> R<i128> {
        match v {
            RVal::Num(RNum::Ex(n, 1)) => Ok(*n),
            _ => Err(RErr::WrongType("Number")),
        }
    }

    fn arity(p: &str) -> (usize, bool) {
        match p {
            "car" | "cdr" | "null?" | "pair?" | "list?" | "not" | "abs" | "floor" | "ceiling" | "vector-length" | "vector?" | "last-pair"
            | "procedure?" | "boolean?" | "number?" | "symbol?" | "string?" | "char?" | "display" | "probe" => (1, false),
            "caar" | "cadr" | "cdar" | "cddr" | "caaar" | "caadr" | "cadar" | "caddr" | "cdaar" | "cdadr" | "cddar" | "cdddr" => (1, false),
            "cons" | "eqv?" | "eq?" | "equal?" | "floor-quotient" | "floor-remainder" | "make-vector" | "vector-ref"
            | "list-tail" | "list-ref" | "memq" | "memv" | "make-list" | "tick" => (2, false),
            "map" | "for-each" => (2, true),
            "vector-set!" | "fold-left" | "fold-right" => (3, false),
            "newline" => (0, false),
            "-" | "/" | "min" | "max" | "apply" => (1, true),
            _ => (0, true), // list + * = < > <= >= vector append boolean=?
        }
    }

    fn prim(&mut self, p: &'static str, a: Vec<RVal>) -> R<RVal> {
        let (n, var) = Self::arity(p);
        if a.len() < n || (a.len() > n && !var) {
            return Err(RErr::Arity);
        }
        match p {
            "car" | "cdr" => match &a[0] {
                RVal::Pair(x, d) => Ok(if p == "car" { (**x).clone() } else { (**d).clone() }),
                _ => Err(RErr::WrongType("Pair")),
            },
            "caar" | "cadr" | "cdar" | "cddr" | "caaar" | "caadr" | "cadar" | "caddr" | "cdaar" | "cdadr" | "cddar" | "cdddr" => {
                // c[ad]+r: apply the letters right to left
                let letters: Vec<char> = p[1..p.len() - 1].chars().rev().collect();
                let mut cur = a[0].clone();
                for l in letters {
                    cur = match cur {
                        RVal::Pair(x, d) => {
                            if l == 'a' {
                                *x
                            } else {
                                *d
                            }
                        }
                        _ => return Err(RErr::WrongType("Pair")),
                    };
                }
                Ok(cur)
            }
            "cons" => Ok(RVal::Pair(Box::new(a[0].clone()), Box::new(a[1].clone()))),
            "list" => Ok(vec_to_list(a, RVal::Nil)),
            "null?" => Ok(RVal::Bool(matches!(a[0], RVal::Nil))),
            "pair?" => Ok(RVal::Bool(matches!(a[0], RVal::Pair(..)))),
            "list?" => Ok(RVal::Bool(proper_list(&a[0]).is_some())),
            "not" => Ok(RVal::Bool(matches!(a[0], RVal::Bool(false)))),
            "procedure?" => Ok(RVal::Bool(matches!(a[0], RVal::Closure(_) | RVal::Prim(_)))),
            "boolean?" => Ok(RVal::Bool(matches!(a[0], RVal::Bool(_)))),
            "number?" => Ok(RVal::Bool(matches!(a[0], RVal::Num(_)))),
            "symbol?" => Ok(RVal::Bool(matches!(a[0], RVal::Sym(_)))),
            "string?" => Ok(RVal::Bool(matches!(a[0], RVal::Str(_)))),
            "char?" => Ok(RVal::Bool(matches!(a[0], RVal::Char(_)))),
            "vector?" => Ok(RVal::Bool(matches!(a[0], RVal::Vector(_)))),
            "eqv?" | "eq?" => Ok(RVal::Bool(self.eqv(&a[0], &a[1]))),
            "equal?" => Ok(RVal::Bool(self.equal(&a[0], &a[1]))),
            "boolean=?" => {
                let mut bs = vec![];
                for x in &a {
                    match x {
                        RVal::Bool(b) => bs.push(*b),
                        _ => return Err(RErr::WrongType("Boolean")),
                    }
                }
                Ok(RVal::Bool(bs.windows(2).all(|w| w[0] == w[1])))
            }
            "+" | "*" => {
                let mut acc = RNum::int(if p == "+" { 0 } else { 1 });
                for x in &a {
                    let n = Self::exact(Self::num(x)?)?;
                    acc = Self::check_rep(if p == "+" { acc.add(n) } else { acc.mul(n) })?;
                }
                Ok(RVal::Num(acc))
            }
            "-" | "/" => {
                let first = Self::num(&a[0])?;
                let rest: Vec<RNum> = a[1..].iter().map(Self::num).collect::<R<_>>()?;
                let first = Self::exact(first)?;
                let step = |x: RNum, y: RNum| -> R<RNum> {
                    if p == "-" {
                        Ok(x.sub(y))
                    } else {
                        x.div(y).ok_or(RErr::DivZero)
                    }
                };
                if rest.is_empty() {
                    let unit = RNum::int(if p == "-" { 0 } else { 1 });
                    return Ok(RVal::Num(Self::check_rep(step(unit, first)?)?));
                }
                let mut acc = first;
                for y in rest {
                    acc = Self::check_rep(step(acc, Self::exact(y)?)?)?;
                }
                Ok(RVal::Num(acc))
            }
            "=" | "<" | ">" | "<=" | ">=" => {
                let ns: Vec<RNum> = a.iter().map(Self::num).collect::<R<_>>()?;
                for n in &ns {
                    Self::exact(*n)?;
                }
                use std::cmp::Ordering::*;
                let ok = ns.windows(2).all(|w| {
                    let o = w[0].cmp_exact(w[1]);
                    match p {
                        "=" => o == Equal,
                        "<" => o == Less,
                        ">" => o == Greater,
                        "<=" => o != Greater,
                        _ => o != Less,
                    }
                });
                Ok(RVal::Bool(ok))
            }
            "abs" => Ok(RVal::Num(Self::check_rep(Self::exact(Self::num(&a[0])?)?.abs())?)),
            "floor" => Ok(RVal::Num(Self::exact(Self::num(&a[0])?)?.floor())),
            "ceiling" => Ok(RVal::Num(Self::exact(Self::num(&a[0])?)?.ceiling())),
            "min" | "max" => {
                let mut best = Self::exact(Self::num(&a[0])?)?;
                for x in &a[1..] {
                    let n = Self::exact(Self::num(x)?)?;
                    let o = n.cmp_exact(best);
                    if (p == "max" && o == std::cmp::Ordering::Greater) || (p == "min" && o == std::cmp::Ordering::Less) {
                        best = n;
                    }
                }
                Ok(RVal::Num(best))
            }
            "floor-quotient" | "floor-remainder" => {
                let x = Self::exact(Self::num(&a[0])?)?;
                let y = Self::exact(Self::num(&a[1])?)?;
                let q = x.div(y).ok_or(RErr::DivZero)?.floor();
                if p == "floor-quotient" {
                    Ok(RVal::Num(Self::check_rep(q)?))
                } else {
                    Ok(RVal::Num(Self::check_rep(x.sub(y.mul(q)))?))
                }
            }
            "vector" => {
                self.store.push(VecObj { items: a, mutable: true });
                Ok(RVal::Vector(self.store.len() - 1))
            }
            "make-vector" => {
                let k = Self::int_index(&a[0])?;
                if k < 0 {
                    return Err(RErr::NegativeLength);
                }
                if k > 10_000 {
                    return Err(RErr::OutOfClass("huge vector".into()));
                }
                self.store.push(VecObj { items: vec![a[1].clone(); k as usize], mutable: true });
                Ok(RVal::Vector(self.store.len() - 1))
            }
            "vector-length" => match &a[0] {
                RVal::Vector(id) => Ok(RVal::Num(RNum::int(self.store[*id].items.len() as i128))),
                _ => Err(RErr::WrongType("Vector")),
            },
            "vector-ref" => match &a[0] {
                RVal::Vector(id) => {
                    let k = Self::int_index(&a[1])?;
                    let items = &self.store[*id].items;
                    if k < 0 || k as usize >= items.len() {
                        Err(RErr::VecIndex)
                    } else {
                        Ok(items[k as usize].clone())
                    }
                }
                _ => Err(RErr::WrongType("Vector")),
            },
            "vector-set!" => match &a[0] {
                RVal::Vector(id) => {
                    let k = Self::int_index(&a[1])?;
                    let obj = &mut self.store[*id];
                    if !obj.mutable {
                        return Err(RErr::Immutable);
                    }
                    if k < 0 || k as usize >= obj.items.len() {
                        return Err(RErr::VecIndex);
                    }
                    obj.items[k as usize] = a[2].clone();
                    Ok(RVal::Void)
                }
                _ => Err(RErr::WrongType("Vector")),
            },
            "append" => {
                if a.is_empty() {
                    return Ok(RVal::Nil);
                }
                let mut items = vec![];
                for x in &a[..a.len() - 1] {
                    match proper_list(x) {
                        Some(v) => items.extend(v),
                        None => return Err(RErr::Other("append: not a list".into())),
                    }
                }
                Ok(vec_to_list(items, a[a.len() - 1].clone()))
            }
            "map" | "for-each" => {
                // one or several lists; the shortest decides (r7rs 6.10)
                let mut lists = vec![];
                for l in &a[1..] {
                    lists.push(proper_list(l).ok_or_else(|| RErr::OutOfClass("map/for-each on a non-list".into()))?);
                }
                let n = lists.iter().map(|l| l.len()).min().unwrap_or(0);
                let mut out = vec![];
                for i in 0..n {
                    let args: Vec<RVal> = lists.iter().map(|l| l[i].clone()).collect();
                    out.push(self.apply(a[0].clone(), args)?);
                }
                if p == "map" {
                    Ok(vec_to_list(out, RVal::Nil))
                } else {
                    Ok(RVal::Void)
                }
            }
            "fold-left" => {
                let items = proper_list(&a[2]).ok_or_else(|| RErr::OutOfClass("fold on a non-list".into()))?;
                let mut acc = a[1].clone();
                for it in items {
                    acc = self.apply(a[0].clone(), vec![it, acc])?;
                }
                Ok(acc)
            }
            "fold-right" => {
                let items = proper_list(&a[2]).ok_or_else(|| RErr::OutOfClass("fold on a non-list".into()))?;
                let mut acc = a[1].clone();
                for it in items.into_iter().rev() {
                    acc = self.apply(a[0].clone(), vec![it, acc])?;
                }
                Ok(acc)
            }
            "list-tail" | "list-ref" => {
                let k = Self::int_index(&a[1])?;
                if k < 0 {
                    return Err(RErr::OutOfClass("negative index".into()));
                }
                let mut cur = a[0].clone();
                for _ in 0..k {
                    cur = match cur {
                        RVal::Pair(_, d) => *d,
                        _ => return Err(RErr::Other("list too short".into())),
                    };
                }
                if p == "list-tail" {
                    Ok(cur)
                } else {
                    match cur {
                        RVal::Pair(x, _) => Ok(*x),
                        _ => Err(RErr::Other("list too short".into())),
                    }
                }
            }
            "last-pair" => {
                let mut cur = a[0].clone();
                if !matches!(cur, RVal::Pair(..)) {
                    return Err(RErr::Other("last-pair of a non-pair".into()));
                }
                loop {
                    match &cur {
                        RVal::Pair(_, d) if matches!(**d, RVal::Pair(..)) => {
                            let next = (**d).clone();
                            cur = next;
                        }
                        _ => return Ok(cur),
                    }
                }
            }
            "memq" | "memv" => {
                let mut cur = a[1].clone();
                loop {
                    match cur {
                        RVal::Pair(x, d) => {
                            if self.eqv(&a[0], &x) {
                                return Ok(RVal::Pair(x, d));
                            }
                            cur = *d;
                        }
                        RVal::Nil => return Ok(RVal::Bool(false)),
                        _ => return Err(RErr::OutOfClass("memv on an improper list".into())),
                    }
                }
            }
            "make-list" => {
                let k = Self::int_index(&a[0])?;
                if k > 10_000 {
                    return Err(RErr::OutOfClass("huge list".into()));
                }
                Ok(vec_to_list(vec![a[1].clone(); k.max(0) as usize], RVal::Nil))
            }
            "apply" => {
                let f = a[0].clone();
                if !matches!(f, RVal::Closure(_) | RVal::Prim(_)) {
                    return Err(RErr::NotProcedure);
                }
                let mut args: Vec<RVal> = a[1..].to_vec();
                if let Some(last) = args.pop() {
                    match list_to_vec(&last) {
                        Some((items, _)) if matches!(last, RVal::Pair(..) | RVal::Nil) => args.extend(items),
                        _ => return Err(RErr::WrongType("Pair")),
                    }
                }
                self.apply(f, args)
            }
            "display" => {
                let s = self.display(&a[0]);
                self.output.push_str(&s);
                Ok(RVal::Void)
            }
            "newline" => {
                self.output.push('\n');
                Ok(RVal::Void)
            }
            "tick" => {
                if let RVal::Num(RNum::Ex(k, 1)) = a[0] {
                    self.trace.push(k as i32);
                }
                Ok(a[1].clone())
            }
            "probe" => Ok(a[0].clone()),
            _ => Err(RErr::OutOfClass(format!("primitive {}", p))),
        }
    }

    /// what `display` writes for the unambiguous printable subset
    pub fn display(&self, v: &RVal) -> String {
        match v {
            RVal::Num(n) => n.show(),
            RVal::Bool(true) => "#t".into(),
            RVal::Bool(false) => "#f".into(),
            RVal::Str(s) => s.clone(),
            RVal::Char(c) => format!("#\\{}", c),
            RVal::Sym(s) => s.clone(),
            RVal::Nil => "()".into(),
            RVal::Pair(..) => {
                let (items, tail) = list_to_vec(v).unwrap();
                let mut s = String::from("(");
                s.push_str(&items.iter().map(|i| self.display(i)).collect::<Vec<_>>().join(" "));
                if !matches!(tail, RVal::Nil) {
                    s.push_str(" . ");
                    s.push_str(&self.display(&tail));
                }
                s.push(')');
                s
            }
            RVal::Vector(id) => format!("#({})", self.store[*id].items.iter().map(|i| self.display(i)).collect::<Vec<_>>().join(" ")),
            RVal::Closure(_) | RVal::Prim(_) => "#<procedure>".into(),
            RVal::Void => "Void".into(),
        }
    }

    /// compare a model value with an interpreter snapshot
    pub fn matches(&self, r: &RVal, s: &SVal) -> bool {
        match (r, s) {
            (RVal::Void, _) => true,
            (RVal::Num(n), SVal::Num(m)) => match (n, RNum::of(m)) {
                (RNum::Ex(..), Some(mv @ RNum::Ex(..))) => *n == mv,
                (RNum::Re(x), Some(RNum::Re(y))) => x.to_bits() == y.to_bits() || (x.is_nan() && y.is_nan()),
                _ => false,
            },
            (RVal::Bool(a), SVal::Bool(b)) => a == b,
            (RVal::Str(a), SVal::Str(b)) => a == b,
            (RVal::Char(a), SVal::Char(b)) => a == b,
            (RVal::Sym(a), SVal::Sym(b)) => a == b,
            (RVal::Nil, SVal::Nil) => true,
            (RVal::Pair(a, d), SVal::Pair(x, y)) => self.matches(a, x) && self.matches(d, y),
            (RVal::Vector(id), SVal::Vector { items, mutable, .. }) => {
                let o = &self.store[*id];
                o.mutable == *mutable && o.items.len() == items.len() && o.items.iter().zip(items.iter()).all(|(p, q)| self.matches(p, q))
            }
            (RVal::Closure(_), SVal::Proc(_)) | (RVal::Prim(_), SVal::Proc(_)) => true,
            _ => false,
        }
    }

    pub fn show(&self, v: &RVal) -> String {
        match v {
            RVal::Str(s) => format!("{:?}", s),
            RVal::Void => "#<unspecified>".into(),
            RVal::Vector(id) => format!(
                "#{}({})",
                if self.store[*id].mutable { "" } else { "!" },
                self.store[*id].items.iter().map(|i| self.show(i)).collect::<Vec<_>>().join(" ")
            ),
            RVal::Pair(..) => {
                let (items, tail) = list_to_vec(v).unwrap();
                let mut s = String::from("(");
                s.push_str(&items.iter().map(|i| self.show(i)).collect::<Vec<_>>().join(" "));
                if !matches!(tail, RVal::Nil) {
                    s.push_str(" . ");
                    s.push_str(&self.show(&tail));
                }
                s.push(')');
                s
            }
            other => self.display(other),
        }
    }
}

/// result of running a whole program on the model under one evaluation order
#[derive(Clone, Debug)]
pub struct FormResult {
    /// Ok(None) definition, Ok(Some(shown value)), Err(error)
    pub outcome: Result<Option<String>, RErr>,
    pub trace: Vec<i32>,
}

pub struct ModelRun {
    pub machine: Machine,
    pub values: Vec<Result<Option<RVal>, RErr>>,
    pub traces: Vec<Vec<i32>>,
}

pub fn run_model(forms: &[Form], order: Order) -> ModelRun {
    let mut m = Machine::new(order);
    let mut values = vec![];
    let mut traces = vec![];
    for f in forms {
        m.trace.clear();
        let r = m.eval_form(f);
        values.push(r);
        traces.push(std::mem::take(&mut m.trace));
    }
    ModelRun { machine: m, values, traces }
}

#[allow(dead_code)]
fn _unused(_: HashMap<String, SNum>) {}

#[cfg(test)]
mod tests {
    use super::*;
    fn ev(forms: Vec<Form>) -> Vec<String> {
        let r = run_model(&forms, ORDERS[0]);
        r.values
            .iter()
            .map(|v| match v {
                Ok(Some(x)) => r.machine.show(x),
                Ok(None) => "def".into(),
                Err(e) => e.name(),
            })
            .collect()
    }
    #[test]
    fn r7rs_examples() {
        // (let ((x 2) (y 3)) (let* ((x 7) (z (+ x y))) (* z x))) => 70
        let e = Expr::Let(
            vec![("x".into(), Expr::Int(2)), ("y".into(), Expr::Int(3))],
            body1(Expr::LetStar(
                vec![("x".into(), Expr::Int(7)), ("z".into(), app("+", vec![var("x"), var("y")]))],
                body1(app("*", vec![var("z"), var("x")])),
            )),
        );
        assert_eq!(ev(vec![Form::Expr(e)]), vec!["70"]);
        // (cond ((assv ...)) ...) -> use memv: (cond ((memv 2 '(1 2 3)) => car) (else #f)) => 2
        let e = Expr::Cond(
            vec![Clause::Arrow(app("memv", vec![Expr::Int(2), Expr::Quote(Datum::List(vec![Datum::Int(1), Datum::Int(2), Datum::Int(3)], None))]), var("car"))],
            Some(vec![Expr::Bool(false)]),
        );
        assert_eq!(ev(vec![Form::Expr(e)]), vec!["2"]);
        // (case (* 2 3) ((2 3 5 7) 'prime) ((1 4 6 8 9) 'composite)) => composite
        let e = Expr::Case(
            Box::new(app("*", vec![Expr::Int(2), Expr::Int(3)])),
            vec![
                (vec![Datum::Int(2), Datum::Int(3), Datum::Int(5), Datum::Int(7)], CaseBody::Exprs(vec![Expr::Quote(Datum::Sym("prime".into()))])),
                (vec![Datum::Int(1), Datum::Int(4), Datum::Int(6), Datum::Int(8), Datum::Int(9)], CaseBody::Exprs(vec![Expr::Quote(Datum::Sym("composite".into()))])),
            ],
            None,
        );
        assert_eq!(ev(vec![Form::Expr(e)]), vec!["composite"]);
        // (and 1 2 'c '(f g)) => (f g); (or #f #f) => #f; (or (memq 'b '(a b c)) (/ 3 0)) => (b c)
        assert_eq!(ev(vec![Form::Expr(Expr::And(vec![Expr::Int(1), Expr::Quote(Datum::Sym("c".into()))]))]), vec!["c"]);
        let e = Expr::Or(vec![
            app("memq", vec![Expr::Quote(Datum::Sym("b".into())), Expr::Quote(Datum::List(vec![Datum::Sym("a".into()), Datum::Sym("b".into()), Datum::Sym("c".into())], None))]),
            app("/", vec![Expr::Int(3), Expr::Int(0)]),
        ]);
        assert_eq!(ev(vec![Form::Expr(e)]), vec!["(b c)"]);
        // closures and set!
        let forms = vec![
            Form::Define(Def {
                name: "make".into(),
                sugar: true,
                value: Expr::Lambda(
                    Formals { fixed: vec![], rest: None },
                    Box::new(Body {
                        defs: vec![Def { name: "n".into(), value: Expr::Int(0), sugar: false }],
                        exprs: vec![Expr::Lambda(
                            Formals { fixed: vec![], rest: None },
                            Box::new(Body { defs: vec![], exprs: vec![Expr::Set("n".into(), Box::new(app("+", vec![var("n"), Expr::Int(1)]))), var("n")] }),
                        )],
                    }),
                ),
            }),
            Form::Define(Def { name: "c1".into(), sugar: false, value: app("make", vec![]) }),
            Form::Define(Def { name: "c2".into(), sugar: false, value: app("make", vec![]) }),
            Form::Expr(app("c1", vec![])),
            Form::Expr(app("c1", vec![])),
            Form::Expr(app("c2", vec![])),
        ];
        assert_eq!(ev(forms), vec!["def", "def", "def", "1", "2", "1"]);
        // errors
        assert_eq!(ev(vec![Form::Expr(app("car", vec![Expr::Quote(Datum::List(vec![], None))]))]), vec!["WrongType(Pair)"]);
        assert_eq!(ev(vec![Form::Expr(app("vector-set!", vec![Expr::VecLit(vec![Datum::Int(1)]), Expr::Int(0), Expr::Int(2)]))]), vec!["Immutable"]);
        assert_eq!(ev(vec![Form::Expr(Expr::App(Box::new(Expr::Int(5)), vec![]))]), vec!["NotProcedure"]);
        assert_eq!(ev(vec![Form::Expr(app("floor-remainder", vec![Expr::Int(-1), Expr::Int(3)]))]), vec!["2"]);
        assert_eq!(ev(vec![Form::Expr(app("fold-left", vec![var("cons"), Expr::Quote(Datum::List(vec![], None)), Expr::Quote(Datum::List(vec![Datum::Int(1), Datum::Int(2)], None))]))]), vec!["(2 1)"]);
        assert_eq!(ev(vec![Form::Expr(app("fold-right", vec![var("cons"), Expr::Quote(Datum::List(vec![], None)), Expr::Quote(Datum::List(vec![Datum::Int(1), Datum::Int(2)], None))]))]), vec!["(1 2)"]);
        assert_eq!(ev(vec![Form::Expr(app("append", vec![Expr::Quote(Datum::List(vec![Datum::Int(1)], None)), Expr::Int(2)]))]), vec!["(1 . 2)"]);
        assert_eq!(ev(vec![Form::Expr(app("caddr", vec![Expr::Quote(Datum::List(vec![Datum::Int(1), Datum::Int(2), Datum::Int(3)], None))]))]), vec!["3"]);
        assert_eq!(ev(vec![Form::Expr(app("cdar", vec![Expr::Quote(Datum::List(vec![Datum::List(vec![Datum::Int(1), Datum::Int(2)], None), Datum::Int(3)], None))]))]), vec!["(2)"]);
    }
}
