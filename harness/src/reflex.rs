//! Reference tokenizer / datum reader for the supported lexical grammar (DESIGN.md appendix B).
//! Written from the R7RS lexical syntax, independent of the interpreter's lexer.

#[derive(Clone, Debug, PartialEq)]
pub enum RKind {
    LParen,
    RParen,
    VecOpen,
    Quote,
    Dot,
    Ident(String),
    Bool(bool),
    Char(char),
    Str(String),
    Int(i32),
    Ratio(i32, i32),
    /// literal text of a decimal
    Real(String),
}

#[derive(Clone, Debug, PartialEq)]
pub struct RTok {
    pub kind: RKind,
    /// 1-based line / column of the first character
    pub start: [u32; 2],
    /// cursor after the last character (the interpreter's location convention)
    pub end: [u32; 2],
}

#[derive(Clone, Debug, PartialEq)]
pub enum LexClass {
    Valid(Vec<RTok>),
    /// not valid R7RS: must be rejected
    Invalid(String),
    /// valid R7RS that this lexer does not implement: must be rejected (or read correctly)
    Unsupported(String),
    /// outside the grammar both ways (non-ASCII identifiers, brackets, @-initial identifiers): not judged
    Undefined(String),
}

pub fn is_delimiter(c: char) -> bool {
    matches!(c, ' ' | '\t' | '\n' | '\r' | '(' | ')' | '"' | ';' | '|')
}

fn is_initial(c: char) -> bool {
    c.is_ascii_alphabetic() || "!$%&*/:<=>?^_~".contains(c)
}
fn is_subsequent(c: char) -> bool {
    is_initial(c) || c.is_ascii_digit() || "+-.@".contains(c)
}
fn is_sign_subsequent(c: char) -> bool {
    is_initial(c) || c == '+' || c == '-' || c == '@'
}
fn is_dot_subsequent(c: char) -> bool {
    is_sign_subsequent(c) || c == '.'
}

pub fn is_identifier(s: &str) -> bool {
    let cs: Vec<char> = s.chars().collect();
    if cs.is_empty() {
        return false;
    }
    if is_initial(cs[0]) {
        return cs[1..].iter().all(|c| is_subsequent(*c));
    }
    match cs[0] {
        '+' | '-' => {
            if cs.len() == 1 {
                return true;
            }
            if is_sign_subsequent(cs[1]) {
                return cs[2..].iter().all(|c| is_subsequent(*c));
            }
            if cs[1] == '.' {
                return cs.len() >= 3 && is_dot_subsequent(cs[2]) && cs[3..].iter().all(|c| is_subsequent(*c));
            }
            false
        }
        '.' => cs.len() >= 2 && is_dot_subsequent(cs[1]) && cs[2..].iter().all(|c| is_subsequent(*c)),
        _ => false,
    }
}

#[derive(Debug, PartialEq)]
enum NumClass {
    Int(i32),
    Ratio(i32, i32),
    Real(String),
    Unsupported(String),
    NotNumber,
}

fn all_digits(s: &str) -> bool {
    !s.is_empty() && s.chars().all(|c| c.is_ascii_digit())
}

fn classify_number(s: &str) -> NumClass {
    let (sign, body) = match s.chars().next() {
        Some('+') | Some('-') => (&s[..1], &s[1..]),
        _ => ("", s),
    };
    if body.is_empty() {
        return NumClass::NotNumber;
    }
    if all_digits(body) {
        return match s.strip_prefix('+').unwrap_or(s).parse::<i32>() {
            Ok(v) => NumClass::Int(v),
            Err(_) => NumClass::Unsupported("integer beyond i32".into()),
        };
    }
    if let Some((n, d)) = body.split_once('/') {
        if all_digits(n) && all_digits(d) {
            let nn = format!("{}{}", if sign == "-" { "-" } else { "" }, n).parse::<i32>();
            let dd = d.parse::<i32>();
            return match (nn, dd) {
                (Ok(_), Ok(0)) => NumClass::Unsupported("ratio with zero denominator".into()),
                (Ok(a), Ok(b)) => NumClass::Ratio(a, b),
                _ => NumClass::Unsupported("ratio beyond i32".into()),
            };
        }
        return NumClass::NotNumber;
    }
    // decimals: mantissa [exp]
    let lower_e = body.find('e');
    let (mant, exp) = match lower_e {
        Some(i) => (&body[..i], Some(&body[i + 1..])),
        None => (body, None),
    };
    let exp_ok = match exp {
        None => true,
        Some(e) => {
            let e2 = e.strip_prefix('+').or_else(|| e.strip_prefix('-')).unwrap_or(e);
            all_digits(e2)
        }
    };
    let mant_kind = if let Some((a, b)) = mant.split_once('.') {
        let a_ok = a.is_empty() || all_digits(a);
        let b_ok = b.is_empty() || all_digits(b);
        if a_ok && b_ok && !(a.is_empty() && b.is_empty()) {
            if a.is_empty() {
                2 // .digits
            } else {
                1 // digits.digits*
            }
        } else {
            0
        }
    } else if all_digits(mant) && exp.is_some() {
        3 // digits exp
    } else {
        0
    };
    if mant_kind != 0 && exp_ok {
        // `.5` without a sign is valid R7RS but not implemented by this lexer; `+.5` is implemented
        if mant_kind == 2 && sign.is_empty() {
            return NumClass::Unsupported("decimal starting with a dot".into());
        }
        return NumClass::Real(s.to_string());
    }
    // other R7RS number syntax that the lexer does not implement
    let up = body.to_ascii_uppercase();
    if (up.contains('E') && !body.contains('e'))
        && up.chars().all(|c| c.is_ascii_digit() || c == 'E' || c == '.' || c == '+' || c == '-')
        && up.chars().next().map(|c| c.is_ascii_digit() || c == '.').unwrap_or(false)
    {
        return NumClass::Unsupported("uppercase exponent marker".into());
    }
    if matches!(body, "inf.0" | "nan.0") && !sign.is_empty() {
        return NumClass::Unsupported("inf/nan literal".into());
    }
    if !sign.is_empty() && body == "i" || (body.ends_with('i') && body[..body.len() - 1].chars().all(|c| c.is_ascii_digit() || "+-./e".contains(c)) && body.len() > 1 && body.chars().next().unwrap().is_ascii_digit()) {
        return NumClass::Unsupported("complex literal".into());
    }
    NumClass::NotNumber
}

struct Cursor<'a> {
    cs: &'a [char],
    i: usize,
    line: u32,
    col: u32,
}

impl<'a> Cursor<'a> {
    fn peek(&self) -> Option<char> {
        self.cs.get(self.i).copied()
    }
    fn peek_at(&self, k: usize) -> Option<char> {
        self.cs.get(self.i + k).copied()
    }
    fn bump(&mut self) -> Option<char> {
        let c = self.cs.get(self.i).copied()?;
        self.i += 1;
        if c == '\n' {
            self.line += 1;
            self.col = 1;
        } else {
            self.col += 1;
        }
        Some(c)
    }
    fn pos(&self) -> [u32; 2] {
        [self.line, self.col]
    }
}

const CHAR_NAMES: &[&str] = &["alarm", "backspace", "delete", "escape", "newline", "null", "return", "space", "tab"];

pub fn lex(text: &str) -> LexClass {
    let cs: Vec<char> = text.chars().collect();
    let mut c = Cursor { cs: &cs, i: 0, line: 1, col: 1 };
    let mut out = vec![];
    loop {
        // atmosphere
        loop {
            match c.peek() {
                Some(' ') | Some('\t') | Some('\n') | Some('\r') => {
                    c.bump();
                }
                Some(';') => {
                    while let Some(x) = c.peek() {
                        if x == '\n' || x == '\r' {
                            break;
                        }
                        c.bump();
                    }
                }
                _ => break,
            }
        }
        let start = c.pos();
        let ch = match c.peek() {
            None => return LexClass::Valid(out),
            Some(ch) => ch,
        };
        let kind = match ch {
            '(' => {
                c.bump();
                RKind::LParen
            }
            ')' => {
                c.bump();
                RKind::RParen
            }
            '\'' => {
                c.bump();
                RKind::Quote
            }
            '`' | ',' => return LexClass::Unsupported("quasiquotation".into()),
            '[' | ']' | '{' | '}' => return LexClass::Undefined("brackets/braces".into()),
            '#' => match c.peek_at(1) {
                None => return LexClass::Invalid("lone #".into()),
                Some('(') => {
                    c.bump();
                    c.bump();
                    RKind::VecOpen
                }
                Some('t') | Some('f') => {
                    // read the lexeme up to a delimiter
                    let mut j = c.i + 1;
                    while j < cs.len() && !is_delimiter(cs[j]) {
                        j += 1;
                    }
                    let lexeme: String = cs[c.i..j].iter().collect();
                    match lexeme.as_str() {
                        "#t" | "#f" => {
                            let v = lexeme == "#t";
                            c.bump();
                            c.bump();
                            RKind::Bool(v)
                        }
                        "#true" | "#false" => return LexClass::Unsupported("long boolean".into()),
                        _ => return LexClass::Invalid(format!("boolean not followed by a delimiter: {}", lexeme)),
                    }
                }
                Some('\\') => {
                    let x = match c.peek_at(2) {
                        None => return LexClass::Invalid("#\\ at end of input".into()),
                        Some(x) => x,
                    };
                    // lexeme after the first character up to a delimiter
                    let mut j = c.i + 3;
                    while j < cs.len() && !is_delimiter(cs[j]) {
                        j += 1;
                    }
                    let rest: String = cs[c.i + 3..j].iter().collect();
                    if rest.is_empty() {
                        c.bump();
                        c.bump();
                        c.bump();
                        RKind::Char(x)
                    } else {
                        let name: String = cs[c.i + 2..j].iter().collect();
                        if CHAR_NAMES.contains(&name.as_str())
                            || (x == 'x' && rest.chars().all(|h| h.is_ascii_hexdigit()))
                        {
                            return LexClass::Unsupported("named or hex character".into());
                        }
                        if !x.is_ascii() || rest.chars().any(|h| !h.is_ascii()) {
                            return LexClass::Undefined("non-ASCII after #\\".into());
                        }
                        return LexClass::Invalid(format!("character not followed by a delimiter: #\\{}", name));
                    }
                }
                Some('|') | Some(';') => return LexClass::Unsupported("block / datum comment".into()),
                Some('u') => return LexClass::Unsupported("bytevector".into()),
                Some('e') | Some('i') | Some('x') | Some('d') | Some('b') | Some('o') | Some('E') | Some('I') | Some('X')
                | Some('D') | Some('B') | Some('O') => return LexClass::Unsupported("radix / exactness prefix".into()),
                Some(d) if d.is_ascii_digit() => return LexClass::Unsupported("datum label".into()),
                Some('!') => return LexClass::Unsupported("directive".into()),
                Some(o) => {
                    if !o.is_ascii() {
                        return LexClass::Undefined("non-ASCII after #".into());
                    }
                    return LexClass::Invalid(format!("unknown # syntax #{}", o));
                }
            },
            '"' => {
                c.bump();
                let mut s = String::new();
                loop {
                    match c.bump() {
                        None => return LexClass::Invalid("unterminated string".into()),
                        Some('"') => break,
                        Some('\\') => match c.bump() {
                            None => return LexClass::Invalid("unterminated string".into()),
                            Some('a') => s.push('\u{7}'),
                            Some('b') => s.push('\u{8}'),
                            Some('t') => s.push('\t'),
                            Some('n') => s.push('\n'),
                            Some('r') => s.push('\r'),
                            Some('"') => s.push('"'),
                            Some('\\') => s.push('\\'),
                            Some('|') => s.push('|'),
                            Some('x') => {
                                let mut hex = String::new();
                                loop {
                                    match c.bump() {
                                        None => return LexClass::Invalid("unterminated string".into()),
                                        Some(';') => break,
                                        Some(h) => hex.push(h),
                                    }
                                }
                                if hex.is_empty() || !hex.chars().all(|h| h.is_ascii_hexdigit()) {
                                    return LexClass::Invalid("malformed hex escape".into());
                                }
                                match u32::from_str_radix(&hex, 16).ok().and_then(char::from_u32) {
                                    Some(ch) => s.push(ch),
                                    None => return LexClass::Invalid("hex escape is not a scalar value".into()),
                                }
                            }
                            Some('X') => return LexClass::Unsupported("uppercase hex escape in string".into()),
                            Some(' ') | Some('\t') | Some('\n') | Some('\r') => {
                                return LexClass::Unsupported("line continuation in string".into())
                            }
                            Some(o) => {
                                if !o.is_ascii() {
                                    return LexClass::Undefined("non-ASCII escape".into());
                                }
                                return LexClass::Invalid(format!("unknown string escape \\{}", o));
                            }
                        },
                        Some(o) => s.push(o),
                    }
                }
                RKind::Str(s)
            }
            '|' => {
                c.bump();
                let mut s = String::new();
                loop {
                    match c.bump() {
                        None => return LexClass::Invalid("unterminated |identifier|".into()),
                        Some('|') => break,
                        Some('\\') => return LexClass::Unsupported("escape inside |identifier|".into()),
                        Some(o) => s.push(o),
                    }
                }
                if let Some(n) = c.peek() {
                    if !is_delimiter(n) {
                        return LexClass::Invalid("|identifier| not followed by a delimiter".into());
                    }
                }
                RKind::Ident(s)
            }
            _ => {
                let mut j = c.i;
                while j < cs.len() && !is_delimiter(cs[j]) {
                    j += 1;
                }
                let lexeme: String = cs[c.i..j].iter().collect();
                if lexeme.chars().any(|x| !x.is_ascii() || x.is_ascii_control() || "[]{}".contains(x)) {
                    return LexClass::Undefined("non-ASCII / control / bracket character in a token".into());
                }
                if lexeme.contains('\'') || lexeme.contains('`') || lexeme.contains(',') || lexeme.contains('#') || lexeme.contains('\\') {
                    // R7RS does not make these delimiters, and they cannot occur inside identifiers or numbers
                    return LexClass::Invalid(format!("token contains a character that cannot occur in it: {}", lexeme));
                }
                let kind = if lexeme == "." {
                    RKind::Dot
                } else {
                    match classify_number(&lexeme) {
                        NumClass::Int(v) => RKind::Int(v),
                        NumClass::Ratio(a, b) => RKind::Ratio(a, b),
                        NumClass::Real(t) => RKind::Real(t),
                        NumClass::Unsupported(w) => return LexClass::Unsupported(w),
                        NumClass::NotNumber => {
                            if lexeme.starts_with('@') {
                                return LexClass::Undefined("@-initial identifier".into());
                            }
                            if is_identifier(&lexeme) {
                                if lexeme.starts_with("+.") || lexeme.starts_with("-.") {
                                    // sign . dot-subsequent: valid R7RS identifier, lexer tries to read a number
                                    return LexClass::Unsupported("identifier starting with sign and dot".into());
                                }
                                RKind::Ident(lexeme.clone())
                            } else {
                                return LexClass::Invalid(format!("neither number nor identifier: {}", lexeme));
                            }
                        }
                    }
                };
                for _ in 0..lexeme.chars().count() {
                    c.bump();
                }
                kind
            }
        };
        out.push(RTok { kind, start, end: c.pos() });
    }
}

// ------------------------------------------------------------------------------------
// datum reader

#[derive(Clone, Debug, PartialEq)]
pub enum RDatum {
    Atom(RKind),
    List(Vec<RDatum>, Option<Box<RDatum>>),
    Vector(Vec<RDatum>),
    Quote(Box<RDatum>),
}

pub fn read_all(toks: &[RTok]) -> Result<Vec<RDatum>, String> {
    let mut i = 0;
    let mut out = vec![];
    while i < toks.len() {
        out.push(read_one(toks, &mut i)?);
    }
    Ok(out)
}

fn read_one(toks: &[RTok], i: &mut usize) -> Result<RDatum, String> {
    let t = toks.get(*i).ok_or("unexpected end")?;
    *i += 1;
    match &t.kind {
        RKind::LParen => {
            let mut items = vec![];
            loop {
                let n = toks.get(*i).ok_or("unclosed list")?;
                match n.kind {
                    RKind::RParen => {
                        *i += 1;
                        return Ok(RDatum::List(items, None));
                    }
                    RKind::Dot => {
                        if items.is_empty() {
                            return Err("dot at the start of a list".into());
                        }
                        *i += 1;
                        let tail = read_one(toks, i)?;
                        match toks.get(*i).map(|t| &t.kind) {
                            Some(RKind::RParen) => {
                                *i += 1;
                                return Ok(RDatum::List(items, Some(Box::new(tail))));
                            }
                            _ => return Err("dotted tail not followed by )".into()),
                        }
                    }
                    _ => items.push(read_one(toks, i)?),
                }
            }
        }
        RKind::VecOpen => {
            let mut items = vec![];
            loop {
                let n = toks.get(*i).ok_or("unclosed vector")?;
                match n.kind {
                    RKind::RParen => {
                        *i += 1;
                        return Ok(RDatum::Vector(items));
                    }
                    RKind::Dot => return Err("dot inside a vector".into()),
                    _ => items.push(read_one(toks, i)?),
                }
            }
        }
        RKind::Quote => Ok(RDatum::Quote(Box::new(read_one(toks, i)?))),
        RKind::RParen => Err("unexpected )".into()),
        RKind::Dot => Err("unexpected dot".into()),
        k => Ok(RDatum::Atom(k.clone())),
    }
}

// ------------------------------------------------------------------------------------
// completeness of REPL input (C18): open-list depth, ignoring parentheses inside strings,
// character literals, |identifiers| and comments

#[derive(Debug, PartialEq, Clone, Copy)]
pub struct Completeness {
    /// final depth of open lists/vectors
    pub depth: i64,
    /// a closing parenthesis appeared with nothing open
    pub went_negative: bool,
    /// the text ends inside a string / |identifier|
    pub inside_token: bool,
    /// which token structures contained a parenthesis or semicolon (bit 1 string, 2 char, 4 bar, 8 comment-with-paren)
    pub features: u8,
}

pub fn completeness(text: &str) -> Completeness {
    let cs: Vec<char> = text.chars().collect();
    let mut i = 0;
    let mut depth: i64 = 0;
    let mut neg = false;
    let mut inside = false;
    let mut features = 0u8;
    while i < cs.len() {
        let c = cs[i];
        match c {
            '(' => {
                depth += 1;
                i += 1;
            }
            ')' => {
                depth -= 1;
                if depth < 0 {
                    neg = true;
                }
                i += 1;
            }
            ';' => {
                while i < cs.len() && cs[i] != '\n' && cs[i] != '\r' {
                    if cs[i] == '(' || cs[i] == ')' {
                        features |= 8;
                    }
                    i += 1;
                }
            }
            '"' => {
                i += 1;
                let mut closed = false;
                while i < cs.len() {
                    match cs[i] {
                        '\\' => {
                            if matches!(cs.get(i + 1), Some('(') | Some(')') | Some(';')) {
                                features |= 1;
                            }
                            i += 2
                        }
                        '"' => {
                            i += 1;
                            closed = true;
                            break;
                        }
                        x => {
                            if x == '(' || x == ')' || x == ';' {
                                features |= 1;
                            }
                            i += 1;
                        }
                    }
                }
                if !closed {
                    inside = true;
                }
            }
            '|' => {
                i += 1;
                let mut closed = false;
                while i < cs.len() {
                    if cs[i] == '|' {
                        i += 1;
                        closed = true;
                        break;
                    }
                    if cs[i] == '(' || cs[i] == ')' || cs[i] == ';' {
                        features |= 4;
                    }
                    i += 1;
                }
                if !closed {
                    inside = true;
                }
            }
            '#' => {
                if cs.get(i + 1) == Some(&'\\') {
                    if let Some(x) = cs.get(i + 2) {
                        if *x == '(' || *x == ')' || *x == ';' || *x == '"' || *x == '|' {
                            features |= 2;
                        }
                    }
                    i += 3;
                } else if cs.get(i + 1) == Some(&'(') {
                    depth += 1;
                    i += 2;
                } else {
                    i += 1;
                }
            }
            _ => i += 1,
        }
    }
    Completeness { depth, went_negative: neg, inside_token: inside, features }
}

#[cfg(test)]
mod tests {
    use super::*;
    fn kinds(s: &str) -> Vec<RKind> {
        match lex(s) {
            LexClass::Valid(t) => t.into_iter().map(|t| t.kind).collect(),
            other => panic!("{:?} -> {:?}", s, other),
        }
    }
    #[test]
    fn r7rs_examples() {
        assert_eq!(kinds("(a . b)"), vec![RKind::LParen, RKind::Ident("a".into()), RKind::Dot, RKind::Ident("b".into()), RKind::RParen]);
        assert_eq!(kinds("... + - -> +a ..a"), vec![
            RKind::Ident("...".into()), RKind::Ident("+".into()), RKind::Ident("-".into()), RKind::Ident("->".into()),
            RKind::Ident("+a".into()), RKind::Ident("..a".into())]);
        assert_eq!(kinds("|a b|"), vec![RKind::Ident("a b".into())]);
        assert_eq!(kinds("-12 1/2 -3/4 1.5 1e3 +.5 1. 2.5e-3"), vec![
            RKind::Int(-12), RKind::Ratio(1, 2), RKind::Ratio(-3, 4), RKind::Real("1.5".into()), RKind::Real("1e3".into()),
            RKind::Real("+.5".into()), RKind::Real("1.".into()), RKind::Real("2.5e-3".into())]);
    }
    #[test]
    fn classes() {
        assert!(matches!(lex("#true"), LexClass::Unsupported(_)));
        assert!(matches!(lex("#\\space"), LexClass::Unsupported(_)));
        assert!(matches!(lex("#t#f"), LexClass::Invalid(_)));
        assert!(matches!(lex("1a"), LexClass::Invalid(_)));
        assert!(matches!(lex(".5"), LexClass::Unsupported(_)));
        assert!(matches!(lex("\"a\\x41;\""), LexClass::Valid(_)));
        assert!(matches!(lex("\"abc"), LexClass::Invalid(_)));
        assert!(matches!(lex("a;b\nc"), LexClass::Valid(ref t) if t.len() == 2));
        assert!(matches!(lex("a'b"), LexClass::Invalid(_)));
        assert_eq!(kinds("#\\a #\\( #\\;"), vec![RKind::Char('a'), RKind::Char('('), RKind::Char(';')]);
        assert_eq!(kinds("\"a\\n\\t\\\\\\\"\""), vec![RKind::Str("a\n\t\\\"".into())]);
    }
    #[test]
    fn locations() {
        if let LexClass::Valid(t) = lex("(ab\n  cd)") {
            assert_eq!(t[1].start, [1, 2]);
            assert_eq!(t[1].end, [1, 4]);
            assert_eq!(t[2].start, [2, 3]);
            assert_eq!(t[3].end, [2, 6]);
        } else {
            panic!()
        }
    }
    #[test]
    fn complete() {
        assert_eq!(completeness("(display \"(\")").depth, 0);
        assert_eq!(completeness("(a ; )\n").depth, 1);
        assert_eq!(completeness("(#\\( )").depth, 0);
        assert_eq!(completeness("(|(| a").depth, 1);
    }
}
