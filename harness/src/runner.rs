//! Sharded, seeded case runner on top of proptest; known-finding handling; replay files;
//! evidence JSON.
use proptest::strategy::{Strategy, ValueTree};
use proptest::test_runner::{Config, RngAlgorithm, TestCaseError, TestError, TestRng, TestRunner};
use serde_json::{json, Value as J};
use std::collections::{BTreeMap, HashSet};
use std::sync::atomic::{AtomicBool, AtomicU64, Ordering};
use std::sync::Mutex;
use std::time::Instant;

pub const SHARDS: u64 = 16;

static OUT: Mutex<Option<std::fs::File>> = Mutex::new(None);

/// Programs under test print to the process's stdout (display, newline). The harness moves the real
/// stdout aside and points fd 1 at /dev/null, so that protocol lines can never be forged or drowned.
pub fn capture_stdout() {
    use std::os::fd::FromRawFd;
    unsafe {
        let saved = libc::dup(1);
        if saved < 0 {
            return;
        }
        let devnull = libc::open(b"/dev/null\0".as_ptr() as *const libc::c_char, libc::O_WRONLY);
        if devnull >= 0 {
            libc::dup2(devnull, 1);
            libc::close(devnull);
        }
        *OUT.lock().unwrap() = Some(std::fs::File::from_raw_fd(saved));
    }
}

pub fn out_line(s: &str) {
    use std::io::Write;
    let mut g = OUT.lock().unwrap();
    match g.as_mut() {
        Some(f) => {
            let _ = writeln!(f, "{}", s);
        }
        None => println!("{}", s),
    }
}

#[macro_export]
macro_rules! outln {
    ($($arg:tt)*) => { $crate::runner::out_line(&format!($($arg)*)) };
}
pub const VERIF_DIR: &str = "/verif";

#[derive(Clone, Copy, Debug, PartialEq)]
pub enum Tier {
    Quick,
    Thorough,
}

impl Tier {
    pub fn pick<T>(self, q: T, t: T) -> T {
        match self {
            Tier::Quick => q,
            Tier::Thorough => t,
        }
    }
    pub fn name(self) -> &'static str {
        match self {
            Tier::Quick => "quick",
            Tier::Thorough => "thorough",
        }
    }
}

// ------------------------------------------------------------------------------------
// choice sequences

pub struct Chooser<'a> {
    data: &'a [u32],
    pos: usize,
}

impl<'a> Chooser<'a> {
    pub fn new(data: &'a [u32]) -> Self {
        Chooser { data, pos: 0 }
    }
    pub fn raw(&mut self) -> u32 {
        let v = self.data.get(self.pos).copied().unwrap_or(0);
        self.pos += 1;
        v
    }
    pub fn exhausted(&self) -> bool {
        self.pos >= self.data.len()
    }
    pub fn used(&self) -> usize {
        self.pos
    }
    /// uniform in 0..n, monotone in the raw choice (0 maps to 0)
    pub fn below(&mut self, n: usize) -> usize {
        if n <= 1 {
            return 0;
        }
        ((self.raw() as u64 * n as u64) >> 32) as usize
    }
    /// inclusive range
    pub fn range(&mut self, lo: i64, hi: i64) -> i64 {
        if hi <= lo {
            return lo;
        }
        lo + self.below((hi - lo + 1) as usize) as i64
    }
    /// true with probability num/den; raw 0 gives false
    pub fn chance(&mut self, num: u32, den: u32) -> bool {
        let r = self.raw() as u64;
        // true for the top num/den of the range, so that shrinking (towards 0) gives false
        r >= ((den - num) as u64 * (1u64 << 32)) / den as u64
    }
    pub fn pick<'b, T>(&mut self, xs: &'b [T]) -> &'b T {
        &xs[self.below(xs.len())]
    }
    pub fn pick_s<'s>(&mut self, xs: &[&'s str]) -> &'s str {
        xs[self.below(xs.len())]
    }
    pub fn weighted(&mut self, ws: &[u32]) -> usize {
        let total: u64 = ws.iter().map(|w| *w as u64).sum();
        if total == 0 {
            return 0;
        }
        let mut r = (self.raw() as u64 * total) >> 32;
        for (i, w) in ws.iter().enumerate() {
            if r < *w as u64 {
                return i;
            }
            r -= *w as u64;
        }
        ws.len() - 1
    }
}

// ------------------------------------------------------------------------------------
// reports

#[derive(Clone, Debug)]
pub struct Fail {
    pub sig: String,
    pub detail: String,
}

#[derive(Clone, Debug, Default)]
pub struct Report {
    /// the case written out (used for distinctness, samples and replay files)
    pub key: String,
    pub nontrivial: bool,
    pub labels: Vec<String>,
    pub fails: Vec<Fail>,
    /// outcomes outside the claim (fuel, depth, out-of-class): counted, not judged
    pub skipped: Option<String>,
    /// optional extra text shown in samples (observed result)
    pub note: String,
}

impl Report {
    pub fn new(key: impl Into<String>) -> Report {
        Report { key: key.into(), ..Default::default() }
    }
    pub fn label(&mut self, l: impl Into<String>) {
        self.labels.push(l.into());
    }
    pub fn fail(&mut self, sig: impl Into<String>, detail: impl Into<String>) {
        self.fails.push(Fail { sig: sig.into(), detail: detail.into() });
    }
}

#[derive(Clone, Debug)]
pub struct Finding {
    pub id: String,
    pub property: String,
    pub status: String,
    pub signature: String,
    pub what: String,
}

#[derive(Clone, Debug)]
pub enum ReplayCase {
    Choices(Vec<u32>),
    Index(u64),
    Text(String),
}

#[derive(Clone, Debug)]
pub struct Replay {
    pub sub: String,
    pub case: ReplayCase,
}

#[derive(Default)]
pub struct Stats {
    pub evaluations: u64,
    pub nontrivial: HashSet<u64>,
    pub bulk_nontrivial: u64,
    pub samples: Vec<J>,
    pub sample_per_sub: BTreeMap<String, u32>,
    pub labels: BTreeMap<String, u64>,
    pub known: BTreeMap<String, (u64, String)>,
    pub excluded: BTreeMap<String, u64>,
    pub skipped: BTreeMap<String, u64>,
    pub subs: BTreeMap<String, J>,
    pub violations: Vec<(String, String)>,
    pub exhaustive_subs: Vec<String>,
    pub notes: Vec<String>,
}

pub struct Ctx {
    pub prop: String,
    pub tier: Tier,
    pub seed: u64,
    pub replay: Option<Replay>,
    pub known: Vec<Finding>,
    pub st: Mutex<Stats>,
    pub start: Instant,
    pub stop: AtomicBool,
    pub rule: Mutex<String>,
    pub assumptions: Mutex<Vec<String>>,
    viol_counter: AtomicU64,
    /// RV_DISCOVER=1: tolerate every failure and list signatures with one example each (triage aid, never registered)
    pub discover: bool,
    pub examples: Mutex<BTreeMap<String, String>>,
    viol_per_sig: Mutex<BTreeMap<String, u32>>,
}

fn hash64(s: &str) -> u64 {
    // FNV-1a: stable across runs (no RandomState)
    let mut h: u64 = 0xcbf29ce484222325;
    for b in s.as_bytes() {
        h ^= *b as u64;
        h = h.wrapping_mul(0x100000001b3);
    }
    h
}

pub fn load_findings() -> Vec<Finding> {
    let path = format!("{}/known_findings.json", VERIF_DIR);
    let txt = match std::fs::read_to_string(&path) {
        Ok(t) => t,
        Err(_) => return vec![],
    };
    let j: J = match serde_json::from_str(&txt) {
        Ok(j) => j,
        Err(e) => {
            eprintln!("[rv] cannot parse {}: {}", path, e);
            std::process::exit(2);
        }
    };
    let mut out = vec![];
    if let Some(arr) = j.get("findings").and_then(|f| f.as_array()) {
        for f in arr {
            let g = |k: &str| f.get(k).and_then(|v| v.as_str()).unwrap_or("").to_string();
            out.push(Finding {
                id: g("id"),
                property: g("property"),
                status: g("status"),
                signature: g("signature"),
                what: g("what"),
            });
        }
    }
    out
}

impl Ctx {
    pub fn new(prop: &str, tier: Tier, seed: u64, replay: Option<Replay>) -> Ctx {
        Ctx {
            prop: prop.to_string(),
            tier,
            seed,
            replay,
            known: load_findings(),
            st: Mutex::new(Stats::default()),
            start: Instant::now(),
            stop: AtomicBool::new(false),
            rule: Mutex::new(String::new()),
            assumptions: Mutex::new(vec![]),
            viol_counter: AtomicU64::new(0),
            discover: std::env::var("RV_DISCOVER").is_ok(),
            examples: Mutex::new(BTreeMap::new()),
            viol_per_sig: Mutex::new(BTreeMap::new()),
        }
    }

    pub fn set_rule(&self, r: &str) {
        *self.rule.lock().unwrap() = r.to_string();
    }
    pub fn assume(&self, a: &str) {
        self.assumptions.lock().unwrap().push(a.to_string());
    }
    pub fn note(&self, n: impl Into<String>) {
        self.st.lock().unwrap().notes.push(n.into());
    }

    /// is this signature an accepted (status "known") finding of this property?
    pub fn known_what(&self, sig: &str) -> Option<String> {
        if self.discover {
            return Some("(discovery mode: not judged)".to_string());
        }
        self.known
            .iter()
            .find(|f| f.property == self.prop && f.status == "known" && f.signature == sig)
            .map(|f| f.what.clone())
    }

    fn unknown_fails<'r>(&self, rep: &'r Report) -> Vec<&'r Fail> {
        rep.fails.iter().filter(|f| self.known_what(&f.sig).is_none()).collect()
    }

    fn record(&self, sub: &str, rep: &Report) {
        let mut st = self.st.lock().unwrap();
        st.evaluations += 1;
        if let Ok(p) = std::env::var("RV_DUMP") {
            // debugging aid: append every generated case (and what was observed) to a file
            use std::io::Write;
            if let Ok(mut f) = std::fs::OpenOptions::new().create(true).append(true).open(p) {
                let _ = writeln!(f, ";;; {} {:?}\n{}\n;;=> {}\n", sub, rep.labels, rep.key, rep.note);
            }
        }
        if let Some(s) = &rep.skipped {
            *st.skipped.entry(s.clone()).or_insert(0) += 1;
        }
        for l in &rep.labels {
            *st.labels.entry(l.clone()).or_insert(0) += 1;
        }
        for f in &rep.fails {
            if let Some(w) = self.known_what(&f.sig) {
                let e = st.known.entry(f.sig.clone()).or_insert((0, w));
                e.0 += 1;
                if self.discover {
                    let mut ex = self.examples.lock().unwrap();
                    let cur = ex.get(&f.sig);
                    if cur.map(|c| c.len() > rep.key.len() + f.detail.len() + 12).unwrap_or(true) {
                        ex.insert(f.sig.clone(), format!("{}  ==> {}", rep.key, f.detail));
                    }
                }
            }
        }
        if rep.nontrivial && rep.skipped.is_none() {
            let fresh = st.nontrivial.insert(hash64(&format!("{}|{}", sub, rep.key)));
            let n = st.sample_per_sub.entry(sub.to_string()).or_insert(0);
            if fresh && *n < 3 {
                *n += 1;
                let mut k = rep.key.clone();
                if k.len() > 1500 {
                    crate::sut::truncate_chars(&mut k, 1500);
                    k.push_str("…");
                }
                st.samples.push(json!({"sub": sub, "case": k, "observed": rep.note,
                    "known_findings_hit": rep.fails.iter().map(|f| f.sig.clone()).collect::<Vec<_>>()}));
            }
        }
    }

    pub fn count_excluded(&self, what: &str, n: u64) {
        *self.st.lock().unwrap().excluded.entry(what.to_string()).or_insert(0) += n;
    }
    pub fn count_skipped(&self, what: &str, n: u64) {
        *self.st.lock().unwrap().skipped.entry(what.to_string()).or_insert(0) += n;
    }
    pub fn count_label(&self, what: &str, n: u64) {
        *self.st.lock().unwrap().labels.entry(what.to_string()).or_insert(0) += n;
    }
    pub fn count_known(&self, sig: &str, n: u64) -> bool {
        if let Some(w) = self.known_what(sig) {
            let mut st = self.st.lock().unwrap();
            let e = st.known.entry(sig.to_string()).or_insert((0, w));
            e.0 += n;
            true
        } else {
            false
        }
    }
    /// bulk accounting for hot enumeration loops that do their own counting
    pub fn bulk(&self, sub: &str, evaluations: u64, distinct_nontrivial: u64, samples: Vec<J>, exhaustive: bool) {
        let mut st = self.st.lock().unwrap();
        st.evaluations += evaluations;
        st.bulk_nontrivial += distinct_nontrivial;
        for s in samples.into_iter().take(4) {
            st.samples.push(json!({"sub": sub, "case": s}));
        }
        if exhaustive {
            st.exhaustive_subs.push(sub.to_string());
        }
        st.subs.insert(sub.to_string(), json!({"evaluations": evaluations, "distinct_nontrivial": distinct_nontrivial, "exhaustive": exhaustive}));
    }

    fn replay_for(&self, sub: &str) -> Option<&ReplayCase> {
        match &self.replay {
            Some(r) if r.sub == sub => Some(&r.case),
            _ => None,
        }
    }
    /// in replay mode, subs other than the one replayed do nothing
    pub fn skip_sub(&self, sub: &str) -> bool {
        if let Ok(only) = std::env::var("RV_ONLY") {
            if !only.split(',').any(|o| o == sub) {
                return true;
            }
        }
        matches!(&self.replay, Some(r) if r.sub != sub)
    }

    pub fn violation(&self, sub: &str, case: &ReplayCase, rep: &Report) {
        let bad = self.unknown_fails(rep);
        let sig = bad.first().map(|f| f.sig.clone()).unwrap_or_default();
        {
            let mut per = self.viol_per_sig.lock().unwrap();
            let c = per.entry(sig.clone()).or_insert(0);
            *c += 1;
            if *c > 2 && self.replay.is_none() {
                return;
            }
        }
        let n = self.viol_counter.fetch_add(1, Ordering::SeqCst);
        let name = format!("{}-{}-{:08x}.json", self.prop, sub, hash64(&format!("{}{}", rep.key, sig)) as u32);
        let path = format!("{}/replays/found/{}", VERIF_DIR, name);
        let (kind, payload) = match case {
            ReplayCase::Choices(c) => ("choices", json!(c)),
            ReplayCase::Index(i) => ("index", json!(i)),
            ReplayCase::Text(t) => ("text", json!(t)),
        };
        let j = json!({
            "property": self.prop, "sub": sub, "kind": kind, "payload": payload,
            "tier": self.tier.name(), "seed": self.seed,
            "case": rep.key, "observed": rep.note,
            "fails": rep.fails.iter().map(|f| json!({"sig": f.sig, "detail": f.detail,
                 "known": self.known_what(&f.sig).is_some()})).collect::<Vec<_>>(),
        });
        if self.replay.is_none() {
            let _ = std::fs::create_dir_all(format!("{}/replays/found", VERIF_DIR));
            let _ = std::fs::write(&path, serde_json::to_string_pretty(&j).unwrap());
        }
        let mut st = self.st.lock().unwrap();
        if n < 20 {
            eprintln!(
                "[rv] {} {}: violation sig={} detail={}\n      case: {}",
                self.prop,
                sub,
                sig,
                bad.first().map(|f| f.detail.as_str()).unwrap_or(""),
                rep.key.chars().take(600).collect::<String>()
            );
        }
        st.violations.push((path, sig));
    }

    /// Random cases from choice sequences. `f` generates the case from the chooser and judges it.
    pub fn random<F>(&self, sub: &str, cases: u64, max_choices: usize, f: F)
    where
        F: Fn(&mut Chooser) -> Report + Sync,
    {
        if self.skip_sub(sub) {
            return;
        }
        if let Some(rc) = self.replay_for(sub) {
            if let ReplayCase::Choices(c) = rc {
                let rep = f(&mut Chooser::new(c));
                self.report_replay(sub, rc, &rep);
            }
            return;
        }
        let per = (cases + SHARDS - 1) / SHARDS;
        let t0 = Instant::now();
        std::thread::scope(|sc| {
            for shard in 0..SHARDS {
                let f = &f;
                std::thread::Builder::new()
                    .stack_size(64 << 20)
                    .spawn_scoped(sc, move || self.random_shard(sub, shard, per, max_choices, f))
                    .unwrap();
            }
        });
        let mut st = self.st.lock().unwrap();
        st.subs.insert(
            sub.to_string(),
            json!({"cases_requested": per * SHARDS, "kind": "random", "wall_s": t0.elapsed().as_secs_f64()}),
        );
    }

    fn random_shard<F>(&self, sub: &str, shard: u64, cases: u64, max_choices: usize, f: &F)
    where
        F: Fn(&mut Chooser) -> Report + Sync,
    {
        let mut seed = [0u8; 32];
        seed[..8].copy_from_slice(&self.seed.to_le_bytes());
        seed[8..16].copy_from_slice(&shard.to_le_bytes());
        seed[16..24].copy_from_slice(&hash64(sub).to_le_bytes());
        seed[24..32].copy_from_slice(&hash64(&self.prop).to_le_bytes());
        let cfg = Config {
            cases: cases as u32,
            failure_persistence: None,
            max_shrink_iters: 3000,
            // shrinking only improves the replay file, never the verdict: it is cut off after two minutes per shard
            max_shrink_time: 120_000,
            max_global_rejects: 1_000_000,
            ..Config::default()
        };
        let mut runner = TestRunner::new_with_rng(cfg, TestRng::from_seed(RngAlgorithm::ChaCha, &seed));
        let strat = proptest::collection::vec(proptest::num::u32::ANY, 0..=max_choices);
        let failed = std::cell::Cell::new(false);
        let res = runner.run(&strat, |choices| {
            if self.stop.load(Ordering::Relaxed) && !failed.get() {
                return Ok(());
            }
            let rep = f(&mut Chooser::new(&choices));
            let bad = !self.unknown_fails(&rep).is_empty();
            if !failed.get() {
                self.record(sub, &rep);
            }
            if bad {
                failed.set(true);
                Err(TestCaseError::fail("violation"))
            } else {
                Ok(())
            }
        });
        match res {
            Ok(()) => {}
            Err(TestError::Fail(_, choices)) => {
                self.stop.store(true, Ordering::Relaxed);
                let rep = f(&mut Chooser::new(&choices));
                if self.unknown_fails(&rep).is_empty() {
                    // flaky: shrunk case no longer fails; report the infrastructure problem
                    self.note(format!("sub {}: shrunk case did not reproduce (flaky oracle?)", sub));
                    let mut r2 = rep.clone();
                    r2.fail("flaky-nonreproducible", "a failing case stopped failing when re-run");
                    self.violation(sub, &ReplayCase::Choices(choices), &r2);
                } else {
                    self.violation(sub, &ReplayCase::Choices(choices), &rep);
                }
            }
            Err(TestError::Abort(why)) => {
                self.note(format!("sub {}: proptest aborted: {}", sub, why));
            }
        }
    }

    /// Exhaustive / indexed enumeration: indices 0..total, optionally strided sample.
    pub fn indexed<F>(&self, sub: &str, total: u64, stride: u64, f: F)
    where
        F: Fn(u64) -> Option<Report> + Sync,
    {
        if self.skip_sub(sub) {
            return;
        }
        if let Some(rc) = self.replay_for(sub) {
            if let ReplayCase::Index(i) = rc {
                if let Some(rep) = f(*i) {
                    self.report_replay(sub, rc, &rep);
                }
            }
            return;
        }
        let stride = stride.max(1);
        let t0 = Instant::now();
        let offset = if stride > 1 { self.seed % stride } else { 0 };
        let n_idx = if total > offset { (total - offset + stride - 1) / stride } else { 0 };
        let viol = AtomicU64::new(0);
        std::thread::scope(|sc| {
            for shard in 0..SHARDS {
                let f = &f;
                let viol = &viol;
                std::thread::Builder::new()
                    .stack_size(64 << 20)
                    .spawn_scoped(sc, move || {
                        let mut k = shard;
                        while k < n_idx {
                            let i = offset + k * stride;
                            if let Some(rep) = f(i) {
                                self.record(sub, &rep);
                                if !self.unknown_fails(&rep).is_empty() && viol.fetch_add(1, Ordering::SeqCst) < 3 {
                                    self.violation(sub, &ReplayCase::Index(i), &rep);
                                }
                            }
                            k += SHARDS;
                        }
                    })
                    .unwrap();
            }
        });
        let mut st = self.st.lock().unwrap();
        if stride == 1 {
            st.exhaustive_subs.push(sub.to_string());
        }
        st.subs.insert(
            sub.to_string(),
            json!({"space": total, "stride": stride, "kind": "indexed", "exhaustive": stride == 1, "wall_s": t0.elapsed().as_secs_f64()}),
        );
    }

    /// Fixed list of texts (witnesses, regression inputs, seeds).
    pub fn texts<F>(&self, sub: &str, texts: &[String], f: F)
    where
        F: Fn(&str) -> Report + Sync,
    {
        if self.skip_sub(sub) {
            return;
        }
        if let Some(rc) = self.replay_for(sub) {
            if let ReplayCase::Text(t) = rc {
                let rep = f(t);
                self.report_replay(sub, rc, &rep);
            }
            return;
        }
        let viol = AtomicU64::new(0);
        let next = AtomicU64::new(0);
        std::thread::scope(|sc| {
            for _ in 0..SHARDS {
                let f = &f;
                let viol = &viol;
                let next = &next;
                std::thread::Builder::new()
                    .stack_size(64 << 20)
                    .spawn_scoped(sc, move || loop {
                        let i = next.fetch_add(1, Ordering::SeqCst) as usize;
                        if i >= texts.len() {
                            break;
                        }
                        let rep = f(&texts[i]);
                        self.record(sub, &rep);
                        if !self.unknown_fails(&rep).is_empty() && viol.fetch_add(1, Ordering::SeqCst) < 3 {
                            self.violation(sub, &ReplayCase::Text(texts[i].clone()), &rep);
                        }
                    })
                    .unwrap();
            }
        });
        let mut st = self.st.lock().unwrap();
        st.subs.insert(sub.to_string(), json!({"cases": texts.len(), "kind": "fixed-list"}));
    }

    /// report a failing text case found inside a bulk loop
    pub fn bulk_fail(&self, sub: &str, text: &str, rep: &Report) {
        if !self.unknown_fails(rep).is_empty() {
            self.violation(sub, &ReplayCase::Text(text.to_string()), rep);
        } else {
            for f in &rep.fails {
                self.count_known(&f.sig, 1);
                if self.discover {
                    let mut ex = self.examples.lock().unwrap();
                    let cur = ex.get(&f.sig);
                    if cur.map(|c| c.len() > text.len() + f.detail.len() + 12).unwrap_or(true) {
                        ex.insert(f.sig.clone(), format!("{:?}  ==> {}", text, f.detail));
                    }
                }
            }
        }
    }

    fn report_replay(&self, sub: &str, rc: &ReplayCase, rep: &Report) {
        outln!("replay {} {}:\n  case: {}\n  observed: {}", self.prop, sub, rep.key, rep.note);
        for f in &rep.fails {
            outln!("  fail sig={} known={} detail={}", f.sig, self.known_what(&f.sig).is_some(), f.detail);
        }
        self.record(sub, rep);
        if !self.unknown_fails(rep).is_empty() {
            self.violation(sub, rc, rep);
        }
    }

    /// write evidence, print protocol lines, return exit code
    pub fn finish(&self) -> i32 {
        let st = self.st.lock().unwrap();
        let wall = self.start.elapsed().as_secs_f64();
        for (sig, (n, what)) in &st.known {
            if *n > 0 {
                outln!("KNOWN-FINDING: property={} {} [{} cases] {}", self.prop, sig, n, what);
            }
        }
        let mut seen = HashSet::new();
        for (path, sig) in &st.violations {
            if seen.insert(path.clone()) {
                outln!("VIOLATION property={} replay={} sig={}", self.prop, path, sig);
            }
        }
        let distinct = st.nontrivial.len() as u64 + st.bulk_nontrivial;
        let exhaustive_all = false;
        let ev = json!({
            "property_id": self.prop,
            "tier": self.tier.name(),
            "seed": self.seed,
            "level": "exploration",
            "coverage": {
                "evaluations": st.evaluations,
                "distinct_nontrivial": distinct,
                "rule": *self.rule.lock().unwrap(),
                "samples": st.samples,
                "exhaustive": exhaustive_all,
                "exhaustive_subchecks": st.exhaustive_subs,
                "subchecks": st.subs,
                "labels": st.labels,
                "known_findings_observed": st.known.iter().map(|(k, v)| (k.clone(), json!(v.0))).collect::<BTreeMap<_, _>>(),
                "excluded_by_construction": st.excluded,
                "outside_claim": st.skipped,
                "notes": st.notes,
            },
            "assumptions": *self.assumptions.lock().unwrap(),
            "wall_s": wall,
            "violations": st.violations.len(),
        });
        if self.replay.is_none() {
            let _ = std::fs::create_dir_all(format!("{}/evidence", VERIF_DIR));
            let path = format!("{}/evidence/{}.json", VERIF_DIR, self.prop);
            if let Err(e) = std::fs::write(&path, serde_json::to_string_pretty(&ev).unwrap()) {
                eprintln!("[rv] cannot write {}: {}", path, e);
                return 2;
            }
        }
        if self.discover {
            for (sig, ex) in self.examples.lock().unwrap().iter() {
                outln!("DISCOVER sig={}\n         e.g. {}", sig, ex.chars().take(700).collect::<String>());
            }
        }
        outln!(
            "{} {} seed={} evaluations={} distinct_nontrivial={} known_findings={} violations={} wall={:.1}s",
            self.prop,
            self.tier.name(),
            self.seed,
            st.evaluations,
            distinct,
            st.known.len(),
            st.violations.len(),
            wall
        );
        if !st.violations.is_empty() {
            1
        } else {
            0
        }
    }
}

pub fn load_replay(path: &str) -> Result<(String, Replay), String> {
    let txt = std::fs::read_to_string(path).map_err(|e| format!("{}: {}", path, e))?;
    let j: J = serde_json::from_str(&txt).map_err(|e| format!("{}: {}", path, e))?;
    let prop = j.get("property").and_then(|v| v.as_str()).ok_or("no property")?.to_string();
    let sub = j.get("sub").and_then(|v| v.as_str()).ok_or("no sub")?.to_string();
    let kind = j.get("kind").and_then(|v| v.as_str()).ok_or("no kind")?;
    let payload = j.get("payload").ok_or("no payload")?;
    let case = match kind {
        "choices" => ReplayCase::Choices(
            payload
                .as_array()
                .ok_or("payload")?
                .iter()
                .map(|v| v.as_u64().unwrap_or(0) as u32)
                .collect(),
        ),
        "index" => ReplayCase::Index(payload.as_u64().ok_or("payload")?),
        "text" => ReplayCase::Text(payload.as_str().ok_or("payload")?.to_string()),
        // a libFuzzer artifact: the bytes, hex-encoded; `sub` is "fuzz:<target>"
        "fuzz-bytes" => ReplayCase::Text(payload.as_str().ok_or("payload")?.to_string()),
        _ => return Err("unknown kind".into()),
    };
    Ok((prop, Replay { sub, case }))
}

// keep the strategy machinery referenced (ValueTree is needed for .current() in some helpers)
#[allow(dead_code)]
fn _unused<S: Strategy>(s: S, r: &mut TestRunner) -> Option<S::Value> {
    s.new_tree(r).ok().map(|t| t.current())
}
