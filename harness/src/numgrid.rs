//! Operand grid shared by C09, C10 and C16, and direct application of (scheme base) procedures
//! to ready-made values.
use crate::refnum::{gcd, RNum};
use crate::runner::Chooser;
use crate::sut::{self, err_info, guarded, snap_num, snapshot, Outcome, SNum, Session};
use ruschm::interpreter::Interpreter;
use ruschm::values::{ArgVec, Number, Procedure, Value};

pub const GRID_TEXTS: &[&str] = &[
    // integers
    "0", "1", "-1", "2", "-2", "3", "5", "7", "-7", "10", "32767", "-32767", "32768", "46340", "46341", "65536", "-65536",
    "16777216", "16777217", "-16777217", "2147483646", "2147483647", "-2147483648",
    // literal ratios
    "1/2", "-1/2", "1/3", "2/3", "-2/3", "3/2", "-3/2", "7/2", "-7/2", "5/3", "1/32767", "32767/32766", "2/4", "4/2",
    "-6/3", "0/5", "1/1", "6/4", "1/65536", "65537/65536", "2147483647/2", "1/2147483647", "-2147483648/3",
    // neighbours closer than binary64 resolution
    "2147483647/2147483646", "2147483646/2147483645", "-2147483647/2147483646",
    // computed representations
    "(/ 1 -2)", "(/ -1 -2)", "(/ 1/2 -1/3)", "(+ 1/2 1/2)", "(* 2 1/2)", "(- 1/2 1/2)", "(/ 4 6)", "(* 2/3 3/2)",
    "(- 1/3)", "(/ 0/1 -5)", "(/ 7 -2)", "(/ 1 3)",
    // reals
    "0.0", "-0.0", "0.5", "1.5", "-2.5", "1.0", "-1.0", "2.0", "3.0", "1e10", "1e-7", "16777216.0", "16777218.0",
    "3.4e38", "-3.4e38", "1e-45", "0.1", "100.0", "2147483648.0",
    // infinities and NaN (no literal syntax: computed)
    "(/ 1. 0)", "(- (/ 1. 0))", "(- (/ 1. 0) (/ 1. 0))",
];

#[derive(Clone)]
pub struct Opnd {
    pub text: String,
    pub val: Value<f32>,
    pub snum: SNum,
    pub r: RNum,
    /// every numerator/denominator of the representation is below 2^15 in magnitude (exact operands only)
    pub small: bool,
    /// representation is an integer, a real, or a reduced ratio with positive denominator > 1
    pub canonical: bool,
}

pub fn opnd_of(text: String, val: Value<f32>) -> Option<Opnd> {
    let snum = match &val {
        Value::Number(n) => snap_num(n),
        _ => return None,
    };
    let r = RNum::of(&snum)?;
    let (small, canonical) = match snum {
        SNum::Int(n) => ((n as i64).abs() < 32768, true),
        SNum::Rat(a, b) => (
            (a as i64).abs() < 32768 && (b as i64).abs() < 32768,
            b > 1 && gcd(a as i128, b as i128) == 1,
        ),
        SNum::Real(_) => (false, true),
    };
    Some(Opnd { text, val, snum, r, small, canonical })
}

pub fn value_of(r: RNum) -> Option<Value<f32>> {
    match r {
        RNum::Ex(a, 1) if a >= i32::MIN as i128 && a <= i32::MAX as i128 => Some(Value::Number(Number::Integer(a as i32))),
        RNum::Ex(a, b) if r.representable() => Some(Value::Number(Number::Rational(a as i32, b as i32))),
        RNum::Ex(..) => None,
        RNum::Re(x) => Some(Value::Number(Number::Real(x))),
    }
}

/// the same mathematical value in canonical representation
pub fn canonical(o: &Opnd) -> Option<Opnd> {
    let v = value_of(o.r)?;
    opnd_of(format!("canon({})", o.text), v)
}

pub struct NumSession {
    pub sess: Session,
}

impl NumSession {
    pub fn new() -> NumSession {
        NumSession { sess: Session::stdlib().expect("stdlib interpreter") }
    }
    pub fn grid(&mut self) -> Vec<Opnd> {
        let mut out = vec![];
        for t in GRID_TEXTS {
            let it = &mut self.sess.it;
            let r = guarded(|| it.eval(t.chars()));
            match r {
                Ok(Ok(Some(v))) => {
                    if let Some(o) = opnd_of(t.to_string(), v) {
                        out.push(o);
                    }
                }
                _ => {}
            }
        }
        out
    }
    pub fn proc_named(&self, name: &str) -> Procedure<f32> {
        match self.sess.it.env.get(name).map(|v| v.clone()) {
            Some(Value::Procedure(p)) => p,
            _ => panic!("no procedure {}", name),
        }
    }
    /// the raw value of an application (None on error / panic)
    pub fn apply_raw(&self, p: &Procedure<f32>, argv: ArgVec<f32>) -> Option<Value<f32>> {
        let env = self.sess.it.env.clone();
        match guarded(|| Interpreter::<f32>::apply_procedure(p, argv, &env)) {
            Ok(Ok(v)) => Some(v),
            _ => None,
        }
    }
    pub fn apply(&self, p: &Procedure<f32>, args: &[&Opnd]) -> Outcome {
        let argv: ArgVec<f32> = args.iter().map(|o| o.val.clone()).collect();
        let env = self.sess.it.env.clone();
        match guarded(|| Interpreter::<f32>::apply_procedure(p, argv, &env)) {
            Err((site, msg)) => Outcome::Panic { site, msg },
            Ok(Ok(v)) => Outcome::Value(snapshot(&v)),
            Ok(Err(e)) => Outcome::Error(err_info(&e)),
        }
    }
}

/// random operand built directly as a value (so that every representation is reachable)
pub fn random_opnd(ch: &mut Chooser) -> Opnd {
    fn int(ch: &mut Chooser) -> i32 {
        match ch.below(6) {
            0 => ch.range(-10, 10) as i32,
            1 => ch.range(-1000, 1000) as i32,
            2 => ch.range(-40000, 40000) as i32,
            3 => {
                let base = *ch.pick(&[32767i64, 32768, 46340, 46341, 65536, 16777216, 2147483647, -2147483648, -32768, 0]);
                (base + ch.range(-2, 2)).clamp(i32::MIN as i64, i32::MAX as i64) as i32
            }
            4 => ch.range(i32::MIN as i64, i32::MAX as i64) as i32,
            _ => ch.range(-100, 100) as i32,
        }
    }
    let v = match ch.below(10) {
        0..=3 => Value::Number(Number::Integer(int(ch))),
        4..=6 => {
            let a = int(ch);
            let mut b = int(ch);
            if b == 0 || b == i32::MIN {
                b = 1;
            }
            // only representations a program can produce: lowest terms, positive denominator, integers as integers
            value_of(crate::refnum::ex(a as i128, b as i128)).unwrap_or(Value::Number(Number::Integer(a)))
        }
        _ => {
            let x = match ch.below(5) {
                0 => *ch.pick(&[0.0f32, -0.0, 0.5, 1.0, -1.0, 1.5, 2.0, 1e10, 1e-7, 16777216.0, 3.4e38, 1e-45, 0.1]),
                1 => ch.range(-1000, 1000) as f32 / 8.0,
                2 => f32::from_bits(ch.raw()),
                3 => (ch.range(-40000, 40000) as f32) + 0.5,
                _ => ch.range(-100, 100) as f32,
            };
            let x = if x.is_finite() { x } else { 1.0 };
            Value::Number(Number::Real(x))
        }
    };
    let text = match &v {
        Value::Number(n) => format!("{}", n),
        _ => unreachable!(),
    };
    opnd_of(text, v).unwrap()
}

pub fn show_args(args: &[&Opnd]) -> String {
    args.iter().map(|o| format!("{}[{}]", o.text, o.snum.show())).collect::<Vec<_>>().join(" ")
}

pub fn outcome_num(o: &Outcome) -> Option<SNum> {
    match o {
        Outcome::Value(sut::SVal::Num(n)) => Some(n.clone()),
        _ => None,
    }
}
