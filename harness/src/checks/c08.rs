//! C08 — run-time errors are detected, classified, and leave the interpreter usable.
use crate::ast::*;
use crate::faults::{fault_form, prelude, probes, CONTEXTS_C08, CONTEXTS_C08_ONLY, KINDS};
use crate::gen::{Gen, GenCfg};
use crate::progcheck::{compare, obs_text, program_text, run_sut, Cmp};
use crate::runner::{Chooser, Ctx, Report};
use crate::sut::Budget;

pub struct FaultProgram {
    pub forms: Vec<Form>,
    pub fault_index: usize,
    pub kind: &'static str,
    pub context: &'static str,
}

pub fn fault_program(ch: &mut Chooser, kind: &'static str, context: &'static str, max_depth: u32) -> FaultProgram {
    let mut forms = prelude();
    // valid material before and after the fault
    let depth = 1 + ch.below(max_depth as usize) as u32;
    let cfg = if ch.chance(1, 2) { GenCfg::core(depth) } else { GenCfg::derived(depth) };
    let mut cfg = cfg;
    cfg.avoid.template_capture = true;
    cfg.max_forms = 4;
    let valid = {
        let mut g = Gen::new(ch, cfg);
        g.gen_program()
    };
    let cut = ch.below(valid.len() + 1);
    let ff = fault_form(ch, kind, context);
    // a definition the fault needs goes somewhere before it, among the valid forms
    let pre_at = ch.below(cut + 1);
    for (i, f) in valid[..cut].iter().enumerate() {
        if i == pre_at {
            if let Some(p) = &ff.pre {
                forms.push(p.clone());
            }
        }
        forms.push(f.clone());
    }
    if pre_at >= cut {
        if let Some(p) = &ff.pre {
            forms.push(p.clone());
        }
    }
    let fault_index = forms.len();
    forms.push(ff.form);
    forms.extend(valid[cut..].iter().cloned());
    forms.extend(probes());
    FaultProgram { forms, fault_index, kind, context }
}

pub fn judge(fp: &FaultProgram) -> Report {
    let mut rep = Report::new(program_text(&fp.forms));
    rep.label(format!("kind:{}", fp.kind));
    rep.label(format!("context:{}", fp.context));
    let obs = run_sut(&fp.forms, Budget::GENEROUS);
    rep.note = obs_text(&obs[fp.fault_index.min(obs.len().saturating_sub(1))..].to_vec());
    rep.nontrivial = fp.context != "direct" || render_form(&fp.forms[fp.fault_index]).contains("set! wn");
    match compare(&fp.forms, &obs) {
        Cmp::Pass => {}
        Cmp::Skip(w) => rep.skipped = Some(w.split(':').next().unwrap_or("").to_string()),
        Cmp::Fail { form, sig, detail } => {
            let place = if form == fp.fault_index {
                "at-fault"
            } else if form > fp.fault_index {
                "after-fault"
            } else {
                "before-fault"
            };
            let sig = if place == "at-fault" { format!("{}:{}:{}", sig, fp.kind, fp.context) } else { format!("{}:{}", sig, place) };
            rep.fail(sig, format!("form {} ({}): {}", form, place, detail));
        }
    }
    rep
}

/// the faulting operation sits in a procedure exported by a user library; the program may define a variable with the
/// name the library procedure finds unbound
pub fn user_library_case(ch: &mut Chooser) -> Report {
    use crate::checks::c13;
    use crate::progcheck::compare_machine;
    let kind = *ch.pick(&KINDS);
    let lam = |fixed: &[&str], body: Vec<Expr>| {
        Expr::Lambda(Formals { fixed: fixed.iter().map(|s| s.to_string()).collect(), rest: None }, Box::new(Body { defs: vec![], exprs: body }))
    };
    let free = "nowhere-bound";
    let fault = match kind {
        "non-procedure" => Expr::App(Box::new(Expr::Marked(Box::new(Expr::Int(5)))), vec![var("a")]),
        "arity" => Expr::App(Box::new(lam(&["p", "q"], vec![var("p")])), vec![var("a")]),
        "unbound-read" => Expr::Marked(Box::new(var(free))),
        "unbound-set" => Expr::Set(free.into(), Box::new(Expr::Int(1))),
        "wrong-type" => app("car", vec![var("a")]),
        "vector-index" => app("vector-ref", vec![app("vector", vec![Expr::Int(1), Expr::Int(2)]), Expr::Int(2)]),
        "literal-mutation" => app("vector-set!", vec![Expr::Quote(Datum::Vector(vec![Datum::Int(1), Datum::Int(2)])), Expr::Int(0), var("a")]),
        _ => app("/", vec![var("a"), Expr::Int(0)]),
    };
    let body = if ch.chance(1, 2) { fault } else { app("+", vec![Expr::Int(1), fault]) };
    let def = |n: &str, fixed: &[&str], body: Vec<Expr>| Form::Define(Def { name: n.into(), value: lam(fixed, body), sugar: true });
    let lib = LibDef {
        name: "flt lib".into(),
        imports: vec![ImportSpec::plain("scheme base")],
        exports: vec![("lib-fault".into(), "lib-fault".into()), ("lib-ok".into(), "lib-ok".into())],
        body: vec![def("lib-ok", &["x"], vec![app("+", vec![var("x"), Expr::Int(1)])]), def("lib-fault", &["a"], vec![body])],
    };
    let mut program = vec![Form::Import(vec![ImportSpec::plain("scheme base"), ImportSpec::plain("flt lib")])];
    program.push(Form::Define(Def { name: "wn".into(), value: Expr::Int(0), sugar: false }));
    let homonym = ch.chance(2, 3);
    let homonym_first = ch.chance(1, 2);
    let hdef = Form::Define(Def { name: free.into(), value: Expr::Int(100), sugar: false });
    if homonym && homonym_first {
        program.push(hdef.clone());
    }
    program.push(Form::Expr(app("lib-ok", vec![Expr::Int(1)])));
    if homonym && !homonym_first {
        program.push(hdef);
    }
    let context = *ch.pick(&["direct", "non-tail", "tail", "apply"]);
    let call = match context {
        "direct" => app("lib-fault", vec![Expr::Int(1)]),
        "non-tail" => app("+", vec![Expr::Int(1), app("lib-fault", vec![Expr::Int(1)])]),
        "tail" => Expr::App(Box::new(lam(&[], vec![app("lib-fault", vec![Expr::Int(1)])])), vec![]),
        _ => Expr::Apply(Box::new(var("lib-fault")), vec![], Box::new(Expr::Quote(Datum::List(vec![Datum::Int(1)], None)))),
    };
    let fault_index = program.len();
    if ch.chance(1, 2) {
        let seq = vec![Expr::Set("wn".into(), Box::new(app("+", vec![var("wn"), Expr::Int(1)]))), call, Expr::Set("wn".into(), Box::new(Expr::Int(100)))];
        program.push(Form::Expr(Expr::App(Box::new(lam(&[], seq)), vec![])));
    } else {
        program.push(Form::Expr(call));
    }
    program.push(Form::Expr(var("wn")));
    if homonym {
        program.push(Form::Expr(var(free)));
    }
    program.push(Form::Expr(app("lib-ok", vec![Expr::Int(2)])));
    let case = c13::Case { libs: vec![lib], program, labels: vec![], as_files: ch.chance(1, 4) };
    let mut rep = Report::new(format!("{}\n;; program\n{}", case.libs[0].render(), case.program.iter().map(render_form).collect::<Vec<_>>().join("\n")));
    rep.label(format!("kind:{}", kind));
    rep.label(format!("context:{}", context));
    if homonym {
        rep.label("program-defines-the-name-the-library-finds-unbound");
    }
    rep.nontrivial = true;
    let obs = c13::run_case(&case);
    rep.note = obs_text(&obs);
    match compare_machine(&case.program, &obs, c13::model_machine(&case, false)) {
        Cmp::Pass => {}
        Cmp::Skip(w) => rep.skipped = Some(w.split(':').next().unwrap_or("").to_string()),
        Cmp::Fail { form, sig, detail } => {
            let sig = if form == fault_index { format!("{}:{}:user-library", sig, kind) } else { format!("{}:user-library:form-{}", sig, if form > fault_index { "after-fault" } else { "before-fault" }) };
            rep.fail(sig, format!("form {}: {}", form, detail));
        }
    }
    rep
}

pub fn run(ctx: &Ctx) {
    ctx.set_rule(
        "valid random programs (core and derived forms) with one injected faulting form: 8 fault kinds (non-procedure \
         call, arity against fixed/rest formals and builtins, unbound read, unbound set!, wrong-typed builtin argument, \
         vector index out of range incl. negative, mutation of a literal vector, exact division by zero) x 6 calling \
         contexts (direct, non-tail inside a procedure, tail call, through apply, from a library procedure: map for-each \
         fold-left fold-right, deferred: inside a procedure defined by an earlier form and called later) x position; effects (set!, vector-set!, ticks) before the fault and effects that must not \
         happen after it; probes afterwards. Oracle: reference evaluator: error kind at the faulting form, tick trace up to \
         the fault, all later forms. Additionally the same 8 kinds inside a procedure exported by a user library (registered source or .sld \
         file), called directly / in operand position / as a tail call / through apply, with and without a program variable \
         of the name the library procedure finds unbound (oracle: reference module system). Context `loop`: the fault happens in the 1st-5th iteration of a self tail-calling loop defined by an earlier form (for arity faults also as the tail call of the loop to itself with a wrong argument count). Every kind x context skeleton is covered exhaustively with 40 random embeddings each. \
         Non-trivial = context other than direct, or effects before the fault that a later form observes.",
    );
    ctx.random("user-library", ctx.tier.pick(2_000, 10_000), 60, user_library_case);
    let per = ctx.tier.pick(160, 600);
    let n = (KINDS.len() * CONTEXTS_C08.len()) as u64;
    let depth = ctx.tier.pick(3, 5);
    // every skeleton, `per` random embeddings each: the skeleton index is taken from the case number
    for (ki, kind) in KINDS.iter().enumerate() {
        for (ci, context) in CONTEXTS_C08.iter().chain(CONTEXTS_C08_ONLY.iter()).enumerate() {
            let sub = format!("{}@{}", kind, context);
            let _ = (ki, ci, n);
            ctx.random(&sub, per, 500, |ch: &mut Chooser| judge(&fault_program(ch, kind, context, depth)));
        }
    }
}
