//! C08 — run-time errors are detected, classified, and leave the interpreter usable.
use crate::ast::*;
use crate::faults::{fault_form, prelude, probes, CONTEXTS, KINDS};
use crate::gen::{Gen, GenCfg};
use crate::progcheck::{compare, obs_text, program_text, run_sut, Cmp};
use crate::runner::{Chooser, Ctx, Report};
use crate::sut::Budget;

pub struct FaultProgram {
    pub forms: Vec<Form>,
    pub fault_index: usize,
    pub kind: &'static str,
    pub context: &'static str,
}

pub fn fault_program(ch: &mut Chooser, kind: &'static str, context: &'static str, max_depth: u32) -> FaultProgram {
    let mut forms = prelude();
    // valid material before and after the fault
    let depth = 1 + ch.below(max_depth as usize) as u32;
    let cfg = if ch.chance(1, 2) { GenCfg::core(depth) } else { GenCfg::derived(depth) };
    let mut cfg = cfg;
    cfg.avoid.template_capture = true;
    cfg.max_forms = 4;
    let valid = {
        let mut g = Gen::new(ch, cfg);
        g.gen_program()
    };
    let cut = ch.below(valid.len() + 1);
    forms.extend(valid[..cut].iter().cloned());
    let ff = fault_form(ch, kind, context);
    let fault_index = forms.len();
    forms.push(ff.form);
    forms.extend(valid[cut..].iter().cloned());
    forms.extend(probes());
    FaultProgram { forms, fault_index, kind, context }
}

pub fn judge(fp: &FaultProgram) -> Report {
    let mut rep = Report::new(program_text(&fp.forms));
    rep.label(format!("kind:{}", fp.kind));
    rep.label(format!("context:{}", fp.context));
    let obs = run_sut(&fp.forms, Budget::GENEROUS);
    rep.note = obs_text(&obs[fp.fault_index.min(obs.len().saturating_sub(1))..].to_vec());
    rep.nontrivial = fp.context != "direct" || render_form(&fp.forms[fp.fault_index]).contains("set! wn");
    match compare(&fp.forms, &obs) {
        Cmp::Pass => {}
        Cmp::Skip(w) => rep.skipped = Some(w.split(':').next().unwrap_or("").to_string()),
        Cmp::Fail { form, sig, detail } => {
            let place = if form == fp.fault_index {
                "at-fault"
            } else if form > fp.fault_index {
                "after-fault"
            } else {
                "before-fault"
            };
            let sig = if place == "at-fault" { format!("{}:{}:{}", sig, fp.kind, fp.context) } else { format!("{}:{}", sig, place) };
            rep.fail(sig, format!("form {} ({}): {}", form, place, detail));
        }
    }
    rep
}

pub fn run(ctx: &Ctx) {
    ctx.set_rule(
        "valid random programs (core and derived forms) with one injected faulting form: 8 fault kinds (non-procedure \
         call, arity against fixed/rest formals and builtins, unbound read, unbound set!, wrong-typed builtin argument, \
         vector index out of range incl. negative, mutation of a literal vector, exact division by zero) x 5 calling \
         contexts (direct, non-tail inside a procedure, tail call, through apply, from a library procedure: map for-each \
         fold-left fold-right) x position; effects (set!, vector-set!, ticks) before the fault and effects that must not \
         happen after it; probes afterwards. Oracle: reference evaluator: error kind at the faulting form, tick trace up to \
         the fault, all later forms. Every kind x context skeleton is covered exhaustively with 40 random embeddings each. \
         Non-trivial = context other than direct, or effects before the fault that a later form observes.",
    );
    let per = ctx.tier.pick(40, 400);
    let n = (KINDS.len() * CONTEXTS.len()) as u64;
    let depth = ctx.tier.pick(3, 5);
    // every skeleton, `per` random embeddings each: the skeleton index is taken from the case number
    for (ki, kind) in KINDS.iter().enumerate() {
        for (ci, context) in CONTEXTS.iter().enumerate() {
            let sub = format!("{}@{}", kind, context);
            let _ = (ki, ci, n);
            ctx.random(&sub, per, 500, |ch: &mut Chooser| judge(&fault_program(ch, kind, context, depth)));
        }
    }
}
