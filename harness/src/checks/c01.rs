//! C01 — core evaluation yields the value Scheme semantics assigns.
use crate::gen::{calls_via_apply, flip_sugar_forms, Gen, GenCfg};
use crate::progcheck::{compare, obs_text, program_text, run_sut, Cmp, Obs};
use crate::runner::{Chooser, Ctx, Report};
use crate::sut::{Budget, Outcome};

pub fn outcomes_equiv(a: &Obs, b: &Obs) -> Option<String> {
    if a.len() != b.len() {
        return Some(format!("{} vs {} forms", a.len(), b.len()));
    }
    for (i, ((oa, ta), (ob, tb))) in a.iter().zip(b.iter()).enumerate() {
        let same = match (oa, ob) {
            (Outcome::Value(x), Outcome::Value(y)) => x.equiv(y),
            (Outcome::NoValue, Outcome::NoValue) => true,
            (Outcome::Error(x), Outcome::Error(y)) => x.tag == y.tag,
            (Outcome::Budget(_), _) | (_, Outcome::Budget(_)) => true,
            _ => false,
        };
        if !same {
            return Some(format!("form {}: {} vs {}", i, oa.show(), ob.show()));
        }
        if ta != tb {
            return Some(format!("form {}: trace {:?} vs {:?}", i, ta, tb));
        }
    }
    None
}

pub fn case(ch: &mut Chooser, max_depth: u32) -> Report {
    let depth = 1 + ch.below(max_depth as usize) as u32;
    let mut g = Gen::new(ch, GenCfg::core(depth));
    let forms = g.gen_program();
    let labels = g.labels.clone();
    let obs = run_sut(&forms, Budget::GENEROUS);
    let mut rep = Report::new(program_text(&forms));
    rep.note = obs_text(&obs);
    rep.nontrivial = labels.closures_escaping > 0 || labels.rest_with_extra > 0 || labels.internal_def_forward > 0 || labels.applies > 0;
    if labels.closures_escaping > 0 {
        rep.label("closure-escapes");
    }
    if labels.rest_with_extra > 0 {
        rep.label("rest-with-extra-args");
    }
    if labels.internal_defs > 0 {
        rep.label("internal-defs");
    }
    if labels.internal_def_forward > 0 {
        rep.label("internal-def-forward-reference");
    }
    if labels.applies > 0 {
        rep.label("apply");
    }
    if labels.closures_in_data > 0 {
        rep.label("closures-leave-a-body-inside-a-list");
    }
    if labels.redefinitions > 0 {
        rep.label("top-level-name-redefined-with-a-like-value");
    }
    if labels.builtin_shadowed > 0 {
        rep.label("builtin-name-bound-by-the-program");
    }
    if labels.closure_per_round > 0 {
        rep.label("one-closure-per-round-of-a-self-tail-call");
    }
    if labels.let_over_lambda > 0 {
        rep.label("internal-def-let-over-lambda");
    }
    if labels.one_armed_if > 0 {
        rep.label("one-armed-if-in-tail-position");
    }
    if labels.tail_statements > 0 {
        rep.label("statement-in-tail-position-of-thunk");
    }
    if labels.shadowings > 0 {
        rep.label("shadowing");
    }
    if labels.higher_order > 0 {
        rep.label("higher-order");
    }
    if labels.recursion > 0 {
        rep.label("recursion");
    }
    rep.label(format!("depth-{}", labels.max_depth.min(9)));
    match compare(&forms, &obs) {
        Cmp::Pass => {}
        Cmp::Skip(w) => {
            rep.skipped = Some(w.split(':').next().unwrap_or("").to_string());
            return rep;
        }
        Cmp::Fail { form, sig, detail } => {
            rep.fail(sig, format!("form {}: {}", form, detail));
            return rep;
        }
    }
    // equivalent spellings must give the same values and traces
    for (name, variant) in [("define-sugar", flip_sugar_forms(&forms)), ("via-apply", calls_via_apply(&forms))] {
        let obs2 = run_sut(&variant, Budget::GENEROUS);
        if let Some(d) = outcomes_equiv(&obs, &obs2) {
            rep.fail(format!("spelling-variant:{}", name), format!("{}\nvariant program:\n{}", d, program_text(&variant)));
            return rep;
        }
    }
    rep
}

pub fn run(ctx: &Ctx) {
    ctx.set_rule(
        "type-directed random terminating programs over the core forms (literals, quote, if with tests of every type, \
         lambda with 0-5 parameters with/without rest parameter, immediate and named application, top-level and internal \
         definitions incl. forward references under lambda, closures escaping their defining call, higher-order arguments, \
         apply with leading arguments, recursion on a decreasing counter), names drawn from a tiny pool so that shadowing \
         is the norm, sub-expressions wrapped in (tick k e). Oracle: reference evaluator (value and tick trace per form, any \
         of four operand orders); metamorphic: define-sugar flipped and every call rewritten through apply give the same \
         outcomes. Non-trivial = a closure applied after its defining call returned, a rest parameter with extra arguments, \
         a forward reference among internal definitions, or apply.",
    );
    ctx.assume("reference evaluator refeval.rs (own unit tests from R7RS examples) is trusted; integer results beyond i32 put a case outside the class (counted)");
    let cases = ctx.tier.pick(12_000, 80_000);
    let depth = ctx.tier.pick(4, 6);
    ctx.random("programs", cases, 700, |ch| case(ch, depth));
}
