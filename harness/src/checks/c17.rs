//! C17 — running a program file: output, diagnostics and exit status.
use crate::ast::*;
use crate::faults::{fault_form_with, prelude, CONTEXTS, KINDS};
use crate::gen::{map_expr, Gen, GenCfg};
use crate::refeval::{Machine, RErr, ORDERS};
use crate::runner::{Chooser, Ctx, Report};
use crate::sut::{self, Outcome, Session};
use std::path::PathBuf;
use std::process::Command;
use std::sync::atomic::{AtomicU64, Ordering};

pub const BIN: &str = "/verif/harness/target/sut/release/ruschm";

/// the binary under test (RV_BIN overrides the path for development against a scratch tree)
pub fn bin_path() -> String {
    std::env::var("RV_BIN").unwrap_or_else(|_| BIN.to_string())
}

pub fn strip_ticks_expr(e: &Expr) -> Expr {
    map_expr(e, &|x| match x {
        Expr::Tick(_, inner) => Some(strip_ticks_expr(inner)),
        Expr::Marked(inner) => Some(strip_ticks_expr(inner)),
        _ => None,
    })
}

pub fn strip_ticks(forms: &[Form]) -> Vec<Form> {
    forms
        .iter()
        .map(|f| match f {
            Form::Define(d) => Form::Define(Def { name: d.name.clone(), value: strip_ticks_expr(&d.value), sugar: d.sugar }),
            Form::Expr(e) => Form::Expr(strip_ticks_expr(e)),
            other => other.clone(),
        })
        .collect()
}

fn display_form(ch: &mut Chooser, k: usize) -> Vec<Form> {
    let q = |d: Datum| Expr::Quote(d);
    let e = match ch.below(15) {
        // inexact reals: the binary and the library interface work at the same precision
        13 => match ch.below(4) {
            0 => app("/", vec![Expr::Real("1.0".into()), Expr::Int(3)]),
            1 => app("+", vec![Expr::Real("0.1".into()), Expr::Real("0.2".into())]),
            2 => app("*", vec![Expr::Real("1.1".into()), Expr::Real("1.1".into())]),
            _ => app("list", vec![app("/", vec![Expr::Int(2), Expr::Real("3.0".into())]), Expr::Real("0.5".into())]),
        },
        14 => Expr::Real(ch.pick_s(&["0.1", "3.14159", "2.5", "100.25", "0.333", "16777217.0"]).to_string()),
        10 => Expr::RawStr(ch.pick_s(&["name:  \nvalue", "a\t\nb", "line one \n\n  line three", "ends with blank \n"]).to_string()),
        11 => Expr::RawStr(ch.pick_s(&["two\nlines", "tab\there", "x \n y \n z"]).to_string()),
        12 => app("list", vec![Expr::RawStr("in a list \nsecond".into()), Expr::Int(1)]),
        0 => Expr::Int(ch.range(-50, 500) as i32),
        1 => Expr::Str(ch.pick_s(&["hello", "a b", "", "(paren)", "semi;colon", "tab\there"]).to_string()),
        2 => q(Datum::Sym(ch.pick_s(&["foo", "bar", "x->y"]).to_string())),
        3 => Expr::Bool(ch.chance(1, 2)),
        4 => Expr::Char(*ch.pick(&['a', 'Z', '(', '7'])),
        5 => q(Datum::List(vec![Datum::Int(1), Datum::Str("two".into()), Datum::Sym("three".into()), Datum::List(vec![Datum::Int(4)], None)], None)),
        6 => app("vector", vec![Expr::Int(1), q(Datum::Sym("v".into())), Expr::Str("s".into())]),
        7 => app("+", vec![Expr::Int(ch.range(0, 50) as i32), Expr::Int(ch.range(0, 50) as i32)]),
        8 => app("cons", vec![Expr::Int(1), Expr::Int(2)]),
        _ => app("list", vec![app("*", vec![Expr::Int(k as i32), Expr::Int(3)]), q(Datum::List(vec![], None))]),
    };
    let mut v = vec![Form::Expr(app("display", vec![e]))];
    if ch.chance(2, 3) {
        v.push(Form::Expr(app("newline", vec![])));
    }
    v
}

pub struct FileCase {
    pub forms: Vec<Form>,
    pub fault_index: Option<usize>,
    pub crlf: bool,
    pub final_newline: bool,
    pub relative: bool,
    pub with_library: bool,
    pub displays_before_fault: usize,
    /// per form: 0 = nothing, 1 = a comment line before it, 2 = a comment at the end of its last line, 3 = both
    pub comments: Vec<u8>,
}

pub fn gen_case(ch: &mut Chooser) -> FileCase {
    let with_library = ch.chance(1, 5);
    let mut specs = vec![ImportSpec::plain("scheme base"), ImportSpec::plain("scheme write")];
    if with_library {
        specs.push(ImportSpec::plain("mylib helper"));
    }
    let mut forms = vec![Form::Import(specs)];
    forms.extend(strip_ticks(&prelude()));
    let mut cfg = if ch.chance(1, 2) { GenCfg::core(2) } else { GenCfg::derived(2) };
    cfg.ticks = false;
    cfg.avoid.template_capture = true;
    cfg.max_forms = 5;
    let valid = {
        let mut g = Gen::new(ch, cfg);
        g.gen_program()
    };
    let n_disp = 1 + ch.below(5);
    let mut body: Vec<Form> = valid;
    for k in 0..n_disp {
        let pos = ch.below(body.len() + 1);
        let d = display_form(ch, k);
        for (j, f) in d.into_iter().enumerate() {
            body.insert(pos + j, f);
        }
    }
    if with_library {
        body.insert(ch.below(body.len() + 1), Form::Expr(app("display", vec![app("helper-double", vec![Expr::Int(21)])])));
    }
    let mut fault_index = None;
    let mut displays_before_fault = 0;
    let fault_roll = ch.below(8);
    if fault_roll == 0 {
        // a form that is not well-formed text: everything before it has run and displayed, nothing after it does
        let (raw, last_only) = *ch.pick(&[
            (")", false),
            ("(if)", false),
            ("#;", false),
            ("12abc", false),
            ("(display 1/0)", false),
            ("(lambda)", false),
            ("(display #|x|# 1)", false),
            ("(import (scheme write))", false),
            ("(display (car '(1 2))", true),
            ("(display \"never closed)", true),
        ]);
        let pos = if last_only { body.len() } else { ch.below(body.len() + 1) };
        displays_before_fault = body[..pos].iter().filter(|f| render_form(f).starts_with("(display")).count();
        body.insert(pos, Form::Raw(raw.to_string()));
        fault_index = Some(forms.len() + pos);
    } else if fault_roll == 5 && ch.chance(1, 2) {
        // the offending identifier is one that a user macro's template introduces: the diagnostic points into the form
        // that uses the macro (the definition, an earlier form, succeeds)
        let (def, use_) = *ch.pick(&TEMPLATE_FAULTS);
        let mut pos = ch.below(body.len() + 1);
        let at = ch.below(pos + 1);
        body.insert(at, Form::Raw(def.to_string()));
        pos += 1;
        displays_before_fault = body[..pos].iter().filter(|f| render_form(f).starts_with("(display")).count();
        body.insert(pos, Form::Raw(use_.to_string()));
        fault_index = Some(forms.len() + pos);
    } else if fault_roll <= 4 {
        let kind = *ch.pick(&KINDS);
        // one time in five the faulting operation sits in a procedure defined by an earlier form (only for the kinds of
        // error that are located through the failing form: the others carry the position of the offending identifier)
        let context = if !matches!(kind, "unbound-read" | "unbound-set" | "non-procedure") && ch.chance(1, 5) { "deferred" } else { *ch.pick(&CONTEXTS) };
        let derived = ch.chance(1, 2);
        let ff = fault_form_with(ch, kind, context, derived);
        let mut pos = ch.below(body.len() + 1);
        if let Some(p) = &ff.pre {
            let at = ch.below(pos + 1);
            body.insert(at, strip_ticks(&[p.clone()])[0].clone());
            pos += 1;
        }
        displays_before_fault = body[..pos].iter().filter(|f| render_form(f).starts_with("(display")).count();
        let stripped = strip_ticks(&[ff.form]);
        body.insert(pos, stripped[0].clone());
        fault_index = Some(forms.len() + pos);
    }
    forms.extend(body);
    let with_comments = ch.chance(1, 2);
    let comments: Vec<u8> = (0..forms.len()).map(|_| if with_comments && ch.chance(1, 3) { 1 + ch.below(3) as u8 } else { 0 }).collect();
    FileCase { comments, forms, fault_index, crlf: ch.chance(1, 4), final_newline: ch.chance(2, 3), relative: ch.chance(1, 2), with_library, displays_before_fault }
}

static DIRS: AtomicU64 = AtomicU64::new(0);

pub fn scratch(tag: &str) -> PathBuf {
    let d = std::env::temp_dir().join(format!("rv-{}-{}-{}", tag, std::process::id(), DIRS.fetch_add(1, Ordering::SeqCst)));
    let _ = std::fs::remove_dir_all(&d);
    std::fs::create_dir_all(&d).unwrap();
    d
}

pub fn strip_ansi(s: &str) -> String {
    let mut out = String::new();
    let mut it = s.chars().peekable();
    while let Some(c) = it.next() {
        if c == '\u{1b}' {
            if it.peek() == Some(&'[') {
                it.next();
                while let Some(x) = it.next() {
                    if x.is_ascii_alphabetic() {
                        break;
                    }
                }
            }
        } else {
            out.push(c);
        }
    }
    out
}

pub struct RunResult {
    pub stdout: String,
    pub stderr: String,
    pub code: Option<i32>,
}

pub fn run_binary(args: &[&str], cwd: &std::path::Path, stdin: Option<&str>) -> RunResult {
    use std::io::Write;
    let mut cmd = Command::new(bin_path());
    cmd.args(args).current_dir(cwd).stdout(std::process::Stdio::piped()).stderr(std::process::Stdio::piped());
    cmd.stdin(if stdin.is_some() { std::process::Stdio::piped() } else { std::process::Stdio::null() });
    cmd.env_remove("RUST_BACKTRACE");
    let mut child = match cmd.spawn() {
        Ok(c) => c,
        Err(e) => {
            eprintln!("[rv] cannot run {}: {} (run ./check --setup)", bin_path(), e);
            std::process::exit(2);
        }
    };
    if let Some(text) = stdin {
        let mut si = child.stdin.take().unwrap();
        let _ = si.write_all(text.as_bytes());
    }
    // watchdog: a child that does not finish within two minutes is killed (reported with code None and a marker)
    let pid = child.id();
    let done = std::sync::Arc::new(std::sync::atomic::AtomicBool::new(false));
    let killed = std::sync::Arc::new(std::sync::atomic::AtomicBool::new(false));
    {
        let (done, killed) = (done.clone(), killed.clone());
        std::thread::spawn(move || {
            for _ in 0..1200 {
                std::thread::sleep(std::time::Duration::from_millis(100));
                if done.load(Ordering::SeqCst) {
                    return;
                }
            }
            killed.store(true, Ordering::SeqCst);
            unsafe {
                libc::kill(pid as i32, libc::SIGKILL);
            }
        });
    }
    let out = child.wait_with_output().unwrap();
    done.store(true, Ordering::SeqCst);
    let stderr = String::from_utf8_lossy(&out.stderr).to_string();
    if killed.load(Ordering::SeqCst) {
        // a wall-clock limit is not a correctness signal: inconclusive
        eprintln!("[rv] the interpreter binary did not finish within 120 s of wall clock (killed): inconclusive");
        let _ = stderr;
        std::process::exit(2);
    }
    RunResult { stdout: String::from_utf8_lossy(&out.stdout).to_string(), stderr, code: out.status.code() }
}

/// (definition of a macro whose template mentions an identifier that is unbound / not a procedure, a form using it)
const TEMPLATE_FAULTS: [(&str, &str); 4] = [
    ("(define-syntax call-helper (syntax-rules () ((call-helper x) (undefined-helper x))))", "(display (call-helper 1))"),
    ("(define-syntax read-global (syntax-rules () ((read-global) (list 1 undefined-global))))", "(display (list 0 (read-global)))"),
    ("(define-syntax apply-five (syntax-rules () ((apply-five x) (five x))))", "(display (apply-five 1))"),
    ("(define-syntax call-helper2 (syntax-rules () ((call-helper2 x y) (+ x (undefined-helper y)))))", "(if #t (display (call-helper2 1 2)))"),
];

fn template_fault_error(use_text: &str) -> Option<RErr> {
    TEMPLATE_FAULTS.iter().find(|(_, u)| *u == use_text).map(|(d, _)| {
        if d.contains("undefined-helper") {
            RErr::Unbound("undefined-helper".into())
        } else if d.contains("undefined-global") {
            RErr::Unbound("undefined-global".into())
        } else {
            RErr::NotProcedure
        }
    })
}

const LIB_TEXT: &str = "(define-library (mylib helper)\n  (import (scheme base))\n  (export helper-double)\n  (begin (define (helper-double x) (* 2 x))))\n";

fn model_run(c: &FileCase) -> (String, Option<(usize, RErr)>, bool) {
    let mut m = Machine::bare(ORDERS[0]);
    m.libs.insert(
        "mylib helper".to_string(),
        LibDef {
            name: "mylib helper".into(),
            imports: vec![ImportSpec::plain("scheme base")],
            exports: vec![("helper-double".into(), "helper-double".into())],
            body: vec![Form::Define(Def {
                name: "helper-double".into(),
                sugar: true,
                value: Expr::Lambda(Formals { fixed: vec!["x".into()], rest: None }, body1(app("*", vec![Expr::Int(2), var("x")]))),
            })],
        },
    );
    for (i, f) in c.forms.iter().enumerate() {
        if let Form::Raw(t) = f {
            if TEMPLATE_FAULTS.iter().any(|(d, _)| d == t) {
                continue;
            }
            if let Some(e) = template_fault_error(t) {
                return (m.output.clone(), Some((i, e)), false);
            }
            return (m.output.clone(), Some((i, RErr::Syntax)), false);
        }
        match m.eval_form(f) {
            Ok(_) => {}
            Err(RErr::OutOfClass(_)) | Err(RErr::Fuel) => return (m.output.clone(), None, true),
            Err(e) => return (m.output.clone(), Some((i, e)), false),
        }
    }
    (m.output.clone(), None, false)
}

pub fn judge(c: &FileCase) -> Report {
    let nl = if c.crlf { "\r\n" } else { "\n" };
    // one form per line (a form with a raw multi-line string takes several), comments in between
    let mut lines: Vec<String> = vec![];
    let mut extents: Vec<(u32, u32)> = vec![];
    let mut line_no = 1u32;
    for (i, f) in c.forms.iter().enumerate() {
        let k = if matches!(f, Form::Raw(_)) { 0 } else { c.comments.get(i).copied().unwrap_or(0) };
        if k & 1 != 0 {
            lines.push(format!("; note {} ( about \" the next form", i));
            line_no += 1;
        }
        let mut t = render_form(f);
        let span = t.matches('\n').count() as u32;
        if k & 2 != 0 {
            t.push_str(" ; trailing ) comment");
        }
        extents.push((line_no, line_no + span));
        line_no += span + 1;
        lines.push(t);
    }
    let mut text = lines.join(nl);
    if c.final_newline {
        text.push_str(nl);
    }
    let mut rep = Report::new(format!("{}{}{}", if c.crlf { ";; CRLF\n" } else { "" }, if c.final_newline { "" } else { ";; no final newline\n" }, lines.join("\n")));
    rep.label(if c.crlf { "crlf" } else { "lf" });
    rep.label(if c.relative { "relative-path" } else { "absolute-path" });
    if c.comments.iter().any(|k| *k != 0) {
        rep.label("with-comments");
    }
    if c.with_library {
        rep.label("imports-own-library");
    }
    let (expected_out, model_err, skip) = model_run(c);
    if skip {
        rep.skipped = Some("out of class".into());
        return rep;
    }
    rep.label(if model_err.is_some() { "with-fault" } else { "no-fault" });
    rep.nontrivial = model_err.is_some() && c.displays_before_fault >= 2 && c.fault_index.map(|i| i + 1 < c.forms.len()).unwrap_or(false);
    // files
    let dir = scratch("c17");
    let prog_dir = dir.join("prog");
    let cwd = dir.join("elsewhere");
    std::fs::create_dir_all(&prog_dir).unwrap();
    std::fs::create_dir_all(&cwd).unwrap();
    std::fs::write(prog_dir.join("main.scm"), &text).unwrap();
    if c.with_library {
        std::fs::create_dir_all(prog_dir.join("mylib")).unwrap();
        std::fs::write(prog_dir.join("mylib/helper.sld"), LIB_TEXT).unwrap();
        // a decoy with the same name in the working directory
        std::fs::create_dir_all(cwd.join("mylib")).unwrap();
        std::fs::write(cwd.join("mylib/helper.sld"), LIB_TEXT.replace("(* 2 x)", "(quote decoy)")).unwrap();
    }
    let arg = if c.relative { "../prog/main.scm".to_string() } else { prog_dir.join("main.scm").display().to_string() };
    let r = run_binary(&[&arg], &cwd, None);
    // in-process reference on the LF-normalised text (file_char_stream appends a newline to every line)
    let normalised: String = text.replace("\r\n", "\n").lines().map(|l| format!("{}\n", l)).collect();
    let pd = prog_dir.clone();
    let reference = sut::in_thread(move || {
        let mut s = Session::bare().unwrap();
        s.it.program_directory = Some(pd);
        s.eval(&normalised)
    });
    let raw_ref = if c.crlf {
        let raw = text.clone();
        let pd2 = prog_dir.clone();
        Some(sut::in_thread(move || {
            let mut s = Session::bare().unwrap();
            s.it.program_directory = Some(pd2);
            s.eval(&raw)
        }))
    } else {
        None
    };
    let _ = std::fs::remove_dir_all(&dir);
    let stderr = strip_ansi(&r.stderr);
    rep.note = format!("exit {:?}; stdout {:?}; stderr {:?}", r.code, r.stdout.chars().take(200).collect::<String>(), stderr.chars().take(200).collect::<String>());
    if stderr.contains("panicked at") {
        rep.fail("binary-panicked", format!("stderr: {}", stderr));
        return rep;
    }
    if r.stdout != expected_out {
        rep.fail(
            if r.stdout.starts_with(&expected_out) { "output-after-failing-form" } else if expected_out.starts_with(&r.stdout) { "output-lost" } else { "output-differs" },
            format!("expected stdout {:?}, got {:?}", expected_out, r.stdout),
        );
        return rep;
    }
    match (&model_err, &reference) {
        (None, _) => {
            if r.code != Some(0) {
                rep.fail("nonzero-exit-on-success", format!("exit status {:?}, stderr {:?}", r.code, stderr));
            } else if !stderr.trim().is_empty() {
                rep.fail("diagnostic-on-success", format!("stderr {:?}", stderr));
            }
        }
        (Some((i, e)), Outcome::Error(ei)) => {
            if !e.matches(&ei.tag, &ei.arg) {
                rep.fail("reference-run-disagrees-with-model", format!("form {}: model {}, in-process {}", i, e.name(), reference.show()));
                return rep;
            }
            if r.code == Some(0) || r.code.is_none() {
                rep.fail("zero-exit-after-error", format!("exit status {:?} although form {} fails", r.code, i));
                return rep;
            }
            let diag: Vec<&str> = stderr.lines().filter(|l| !l.trim().is_empty()).collect();
            if diag.len() != 1 {
                rep.fail("diagnostic-line-count", format!("{} diagnostic lines: {:?}", diag.len(), diag));
                return rep;
            }
            let line = diag[0];
            if !line.starts_with(&arg) {
                rep.fail("diagnostic-without-file", format!("diagnostic {:?} does not start with {:?}", line, arg));
                return rep;
            }
            let rest = &line[arg.len()..];
            let (loc, msg) = parse_loc(rest);
            let truncated_at_end = matches!(&c.forms[*i], Form::Raw(t) if t.matches('(').count() > t.matches(')').count() || t.matches('"').count() % 2 == 1);
            if let (Some(l), Some((first, last)), false) = (loc, extents.get(*i), truncated_at_end) {
                if l[0] < *first || l[0] > *last {
                    rep.fail(
                        "diagnostic-line-outside-failing-form",
                        format!("diagnostic {:?}: the failing form (number {}) occupies lines {}-{} of the file", line, i, first, last),
                    );
                    return rep;
                }
            }
            if (!matches!(&c.forms[*i], Form::Raw(_)) || matches!(&c.forms[*i], Form::Raw(t) if template_fault_error(t).is_some())) && loc.is_none() {
                // (every run-time fault of the generated kinds is located on the pinned tree: C15)
                rep.fail("diagnostic-without-location", format!("diagnostic {:?} for a run-time fault carries no LINE:COL", line));
                return rep;
            }
            if matches!(&c.forms[*i], Form::Raw(t) if t.starts_with("(import")) && loc.is_none() {
                rep.fail("diagnostic-without-location", format!("diagnostic {:?} for an import declaration that comes too late carries no LINE:COL", line));
                return rep;
            }
            if let Some(Outcome::Error(re)) = &raw_ref {
                // the very same text (CR LF line ends included) through the library interface: same location
                if re.loc != loc && !truncated_at_end {
                    rep.fail("diagnostic-location-differs", format!("diagnostic {:?}: location {:?}, the library interface on the same CR LF text reports {:?}", line, loc, re.loc));
                    return rep;
                }
            }
            if loc != ei.loc {
                rep.fail("diagnostic-location-differs", format!("diagnostic {:?}: location {:?}, library interface reports {:?}", line, loc, ei.loc));
                return rep;
            }
            if msg.trim() != ei.text.trim() {
                rep.fail("diagnostic-message-differs", format!("diagnostic message {:?}, library interface reports {:?}", msg.trim(), ei.text.trim()));
            }
        }
        (Some((i, e)), other) => {
            rep.fail("reference-run-disagrees-with-model", format!("form {}: model {}, in-process {}", i, e.name(), other.show()));
        }
    }
    rep
}

/// ":L:C  message" -> (Some([L,C]), message); " message" -> (None, message)
fn parse_loc(rest: &str) -> (Option<[u32; 2]>, String) {
    if let Some(r) = rest.strip_prefix(':') {
        let mut parts = r.splitn(2, ':');
        if let (Some(a), Some(b)) = (parts.next(), parts.next()) {
            let col: String = b.chars().take_while(|c| c.is_ascii_digit()).collect();
            if let (Ok(l), Ok(c)) = (a.parse::<u32>(), col.parse::<u32>()) {
                return (Some([l, c]), b[col.len()..].to_string());
            }
        }
    }
    (None, rest.to_string())
}

fn nonfile_cases(ctx: &Ctx) {
    if ctx.skip_sub("non-files") || ctx.replay.is_some() {
        return;
    }
    let dir = scratch("c17nf");
    std::fs::create_dir_all(dir.join("a-directory")).unwrap();
    std::fs::write(dir.join("empty.scm"), "").unwrap();
    std::fs::write(dir.join("not-utf8.scm"), [b'(', 0xff, 0xfe, b')', b'\n']).unwrap();
    std::fs::write(dir.join("ok.scm"), "(import (scheme base) (scheme write))\n(display 42)").unwrap();
    let cases: Vec<(&str, &str, bool, &str)> = vec![
        ("missing.scm", "missing file", false, ""),
        ("a-directory", "directory as FILE", false, ""),
        ("not-utf8.scm", "file that is not UTF-8", false, ""),
        ("empty.scm", "empty file", true, ""),
        ("ok.scm", "file without final newline", true, "42"),
    ];
    let mut reps = vec![];
    for (file, desc, ok, out) in cases {
        let r = run_binary(&[file], &dir, None);
        let stderr = strip_ansi(&r.stderr);
        let mut rep = Report::new(format!("ruschm {} ({})", file, desc));
        rep.nontrivial = true;
        rep.note = format!("exit {:?}; stdout {:?}; stderr {:?}", r.code, r.stdout, stderr);
        if stderr.contains("panicked at") {
            rep.fail("binary-panicked", format!("{}: {}", desc, stderr.lines().next().unwrap_or("")));
        } else if ok {
            if r.code != Some(0) || r.stdout != out || !stderr.trim().is_empty() {
                rep.fail("good-file-mishandled", format!("{}: exit {:?} stdout {:?} stderr {:?}", desc, r.code, r.stdout, stderr));
            }
        } else {
            let diag: Vec<&str> = stderr.lines().filter(|l| !l.trim().is_empty()).collect();
            if r.code == Some(0) {
                rep.fail("zero-exit-for-unreadable-file", format!("{}: exit 0", desc));
            } else if diag.len() != 1 || !diag[0].starts_with(file) {
                rep.fail("unreadable-file-diagnostic", format!("{}: diagnostic lines {:?}", desc, diag));
            }
        }
        reps.push(rep);
    }
    let _ = std::fs::remove_dir_all(&dir);
    for r in reps {
        let rr = r.clone();
        ctx.texts("non-files", &[r.key.clone()], move |_| rr.clone());
    }
}

pub fn run(ctx: &Ctx) {
    ctx.set_rule(
        "program files: (import (scheme base) (scheme write)) followed by displaying forms (integers, strings, symbols, \
         booleans, characters, lists and vectors of them, newline), definitions and computations from the program \
         generators and, in five eighths of the cases, one injected fault at a random position (8 run-time kinds x 5 contexts, or a \
         form that is not well-formed text: stray parenthesis, (if), unsupported token, malformed number, block comment, \
         unterminated list or string at the end); written with \
         LF or CRLF line ends, with or without final newline, half of them with comment lines and trailing comments; run by the built binary from a different working directory \
         with an absolute or a relative path; a fifth of the programs import a library of their own next to the program \
         (with a decoy of the same name in the working directory); plus missing file, directory, non-UTF-8 file, empty file. \
         Oracle: stdout equals the reference evaluator's output up to the first failing form; exit status 0 iff no form \
         fails; on failure exactly one diagnostic line FILE[:LINE:COL] MESSAGE whose location and message equal those of \
         in-process evaluation of the same text and whose LINE lies within the lines the failing form occupies in the file. Non-trivial = >= 2 display calls before a fault that is not in the last form.",
    );
    ctx.assume("the binary is built by ./check from /repo's working tree into /verif/harness/target/sut");
    nonfile_cases(ctx);
    let cases = ctx.tier.pick(4_000, 20_000);
    ctx.random("program-files", cases, 500, |ch| judge(&gen_case(ch)));
}
