//! C18 — a REPL session equals evaluating its forms in sequence.
//! (a) completeness predicate through hook H2; (b) sessions through the built binary (see c18_sessions).
use crate::reflex;
use crate::runner::{Ctx, Report, SHARDS};
use crate::sut::guarded;
use std::sync::atomic::{AtomicU64, Ordering};

pub const ALPHABET10: [char; 10] = ['(', ')', '"', ';', '\n', '#', '\\', '|', 'a', ' '];

fn feature_name(f: u8) -> &'static str {
    if f & 1 != 0 {
        "string"
    } else if f & 2 != 0 {
        "character"
    } else if f & 4 != 0 {
        "bar-identifier"
    } else {
        "plain"
    }
}

/// (nontrivial, judged, failure)
pub fn judge_complete(text: &str) -> (bool, bool, Option<(String, String)>) {
    let c = reflex::completeness(text);
    if c.went_negative {
        // a closing parenthesis with nothing open: the submission is an error whatever follows; not judged
        return (false, false, None);
    }
    let expected = c.depth <= 0;
    let got = match guarded(|| ruschm::repl::verif_check_bracket_closed(text)) {
        Ok(b) => b,
        Err((site, msg)) => return (true, true, Some((crate::sut::panic_sig(&site, &msg), "completeness predicate panicked".into()))),
    };
    let nontrivial = (c.features & 7) != 0 || c.depth >= 2 || text.matches('(').count() >= 2;
    if got == expected {
        (nontrivial, true, None)
    } else {
        let sig = if (c.features & 7) != 0 || c.inside_token {
            format!("bracket-counter-ignores-token-structure:{}", feature_name(c.features | if c.inside_token { 1 } else { 0 }))
        } else {
            "bracket-counter-wrong".to_string()
        };
        (
            nontrivial,
            true,
            Some((sig, format!("open-list depth {} (complete = {}), REPL predicate says complete = {}", c.depth, expected, got))),
        )
    }
}

fn sweep(ctx: &Ctx, sub: &str, alpha: &[char], maxlen: u32) {
    if ctx.skip_sub(sub) {
        return;
    }
    if ctx.replay.is_some() {
        ctx.texts(sub, &[], |t| {
            let mut rep = Report::new(format!("{:?}", t));
            let (nt, _, f) = judge_complete(t);
            rep.nontrivial = nt;
            if let Some((s, d)) = f {
                rep.fail(s, d);
            }
            rep
        });
        return;
    }
    let a = alpha.len() as u64;
    let mut total = 0u64;
    for l in 0..=maxlen {
        total += a.pow(l);
    }
    let decode = |mut i: u64, buf: &mut String| {
        buf.clear();
        let mut l = 0u32;
        loop {
            let n = a.pow(l);
            if i < n {
                break;
            }
            i -= n;
            l += 1;
        }
        for _ in 0..l {
            buf.push(alpha[(i % a) as usize]);
            i /= a;
        }
    };
    let nontrivial = AtomicU64::new(0);
    let judged = AtomicU64::new(0);
    let next = AtomicU64::new(0);
    let chunk = 65536u64;
    std::thread::scope(|sc| {
        for _ in 0..SHARDS {
            let (nontrivial, judged, next, decode) = (&nontrivial, &judged, &next, &decode);
            sc.spawn(move || {
                let mut buf = String::new();
                let mut reported = 0u64;
                loop {
                    let c = next.fetch_add(1, Ordering::SeqCst);
                    if c * chunk >= total {
                        break;
                    }
                    let (mut nt_n, mut j_n) = (0u64, 0u64);
                    for i in (c * chunk)..((c + 1) * chunk).min(total) {
                        decode(i, &mut buf);
                        let (nt, j, f) = judge_complete(&buf);
                        if nt {
                            nt_n += 1;
                        }
                        if j {
                            j_n += 1;
                        }
                        if let Some((sig, detail)) = f {
                            reported += 1;
                            if reported < 200 || !ctx.count_known(&sig, 1) {
                                let mut rep = Report::new(format!("{:?}", buf));
                                rep.fail(sig, detail);
                                ctx.bulk_fail(sub, &buf, &rep);
                            }
                        }
                    }
                    nontrivial.fetch_add(nt_n, Ordering::Relaxed);
                    judged.fetch_add(j_n, Ordering::Relaxed);
                }
            });
        }
    });
    ctx.count_label(&format!("{}:judged", sub), judged.load(Ordering::SeqCst));
    ctx.bulk(
        sub,
        total,
        nontrivial.load(Ordering::SeqCst),
        vec![serde_json::json!({"alphabet": alpha.iter().collect::<String>(), "max_length": maxlen,
            "examples": ["(a \"(\")", "(#\\( a", "(|)| a)", "(a ;)\n)", "((a)\n"]})],
        true,
    );
}

pub const COMPLETE_WITNESSES: &[&str] = &[
    "(display \"(\")",
    "(display \")\")",
    "(display \"a;b\")",
    "(list #\\( 1)",
    "(list #\\) 1)",
    "(list #\\; 1)",
    "(quote |(|)",
    "(quote |a;b|)",
    "(a ; comment )\n",
    "(a ; comment (\n)",
    "(a\n(b\n)",
    "(a\n(b\n))",
    "#(1 2",
    "#(1 2)",
    "(display \"\\\")\")",
    "(display \"\\\\\")",
    "\"(\"",
    "; (\n",
    "(define (f x)\n  (if x\n    1\n    2))",
];

pub fn run(ctx: &Ctx) {
    ctx.set_rule(
        "(a) completeness predicate of the REPL (hook H2) on every string up to length 7 (thorough 9) over the alphabet \
         ( ) \" ; LF # \\ | a SPACE, against the reference: complete iff the open-list depth is <= 0, where parentheses \
         inside strings, character literals, |identifiers| and comments do not count (strings whose depth goes negative \
         are not judged); non-trivial = a string/char/bar token containing a parenthesis or semicolon, or >= 2 levels of \
         nesting. (b) sessions: see sub-check 'sessions'.",
    );
    let w: Vec<String> = COMPLETE_WITNESSES.iter().map(|s| s.to_string()).collect();
    ctx.texts("complete-witness", &w, |t| {
        let mut rep = Report::new(format!("{:?}", t));
        let (_, _, f) = judge_complete(t);
        rep.nontrivial = true;
        if let Some((s, d)) = f {
            rep.fail(s, d);
        }
        rep
    });
    let maxlen = ctx.tier.pick(7, 9);
    sweep(ctx, "complete-strings", &ALPHABET10, maxlen);
    crate::checks::c18_sessions::run(ctx);
}
