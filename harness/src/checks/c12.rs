//! C12 — import sets bind exactly the names the import-set algebra yields.
use crate::runner::{Ctx, Report};
use crate::sut::{self, guarded, Outcome, SVal, Session};
use ruschm::interpreter::LibraryFactory;
use ruschm::library_name;
use ruschm::parser::{LibraryName, LibraryNameElement};
use ruschm::values::{Number, Value};

#[derive(Clone, Debug, PartialEq)]
pub enum Term {
    Lib,
    Only(Box<Term>, Vec<String>),
    Except(Box<Term>, Vec<String>),
    Prefix(Box<Term>, String),
    Rename(Box<Term>, Vec<(String, String)>),
}

pub type Bindings = Vec<(String, i32)>;

pub fn exports() -> Bindings {
    vec![("a".into(), 1), ("b".into(), 2), ("c".into(), 3), ("d".into(), 4)]
}

/// R7RS 5.2 import-set algebra (rename is simultaneous)
pub fn model(t: &Term) -> Bindings {
    match t {
        Term::Lib => exports(),
        Term::Only(inner, ids) => model(inner).into_iter().filter(|(n, _)| ids.contains(n)).collect(),
        Term::Except(inner, ids) => model(inner).into_iter().filter(|(n, _)| !ids.contains(n)).collect(),
        Term::Prefix(inner, p) => model(inner).into_iter().map(|(n, v)| (format!("{}{}", p, n), v)).collect(),
        Term::Rename(inner, pairs) => model(inner)
            .into_iter()
            .map(|(n, v)| match pairs.iter().find(|(from, _)| *from == n) {
                Some((_, to)) => (to.clone(), v),
                None => (n, v),
            })
            .collect(),
    }
}

/// the same term with its identifier lists and renaming pairs written in another order (0 = as generated,
/// 1 = reversed, 2 = rotated by one): the order in which they are written must not matter
pub fn render_order(t: &Term, order: usize) -> String {
    fn perm<T: Clone>(v: &[T], order: usize) -> Vec<T> {
        let mut w = v.to_vec();
        match order {
            1 => w.reverse(),
            2 if !w.is_empty() => w.rotate_left(1),
            _ => {}
        }
        w
    }
    match t {
        Term::Lib => "(t lib)".to_string(),
        Term::Only(i, ids) => format!("(only {}{})", render_order(i, order), perm(ids, order).iter().map(|s| format!(" {}", s)).collect::<String>()),
        Term::Except(i, ids) => format!("(except {}{})", render_order(i, order), perm(ids, order).iter().map(|s| format!(" {}", s)).collect::<String>()),
        Term::Prefix(i, p) => format!("(prefix {} {})", render_order(i, order), p),
        Term::Rename(i, ps) => format!("(rename {}{})", render_order(i, order), perm(ps, order).iter().map(|(a, b)| format!(" ({} {})", a, b)).collect::<String>()),
    }
}

pub fn render(t: &Term) -> String {
    match t {
        Term::Lib => "(t lib)".to_string(),
        Term::Only(i, ids) => format!("(only {}{})", render(i), ids.iter().map(|s| format!(" {}", s)).collect::<String>()),
        Term::Except(i, ids) => format!("(except {}{})", render(i), ids.iter().map(|s| format!(" {}", s)).collect::<String>()),
        Term::Prefix(i, p) => format!("(prefix {} {})", render(i), p),
        Term::Rename(i, ps) => format!("(rename {}{})", render(i), ps.iter().map(|(a, b)| format!(" ({} {})", a, b)).collect::<String>()),
    }
}

fn depth(t: &Term) -> u32 {
    match t {
        Term::Lib => 0,
        Term::Only(i, _) | Term::Except(i, _) | Term::Prefix(i, _) | Term::Rename(i, _) => 1 + depth(i),
    }
}

fn ops_used(t: &Term, out: &mut Vec<&'static str>) {
    let (name, inner) = match t {
        Term::Lib => return,
        Term::Only(i, _) => ("only", i),
        Term::Except(i, _) => ("except", i),
        Term::Prefix(i, _) => ("prefix", i),
        Term::Rename(i, _) => ("rename", i),
    };
    if !out.contains(&name) {
        out.push(name);
    }
    ops_used(inner, out);
}

fn has_swap_or_chain(t: &Term) -> bool {
    match t {
        Term::Lib => false,
        Term::Rename(i, ps) => ps.iter().any(|(_, to)| ps.iter().any(|(from, _)| from == to)) || has_swap_or_chain(i),
        Term::Only(i, _) | Term::Except(i, _) | Term::Prefix(i, _) => has_swap_or_chain(i),
    }
}

/// every admissible one-step extension of a term
pub fn extensions(t: &Term) -> Vec<Term> {
    let avail: Vec<String> = model(t).into_iter().map(|(n, _)| n).collect();
    let n = avail.len();
    let mut out = vec![];
    // only / except with every subset
    for mask in 0..(1u32 << n) {
        let ids: Vec<String> = (0..n).filter(|i| mask & (1 << i) != 0).map(|i| avail[i].clone()).collect();
        out.push(Term::Only(Box::new(t.clone()), ids.clone()));
        out.push(Term::Except(Box::new(t.clone()), ids));
    }
    // (the prefix `a` makes the prefixed names aa ab ac ad: one of them repeats the prefix text)
    for p in ["p:", "q-", "P:", "a"] {
        out.push(Term::Prefix(Box::new(t.clone()), p.to_string()));
    }
    // renamings of one or two names; targets from the available names and two fresh ones; result names distinct
    let mut targets: Vec<String> = avail.clone();
    targets.push("x".into());
    targets.push("y".into());
    // a target that looks like a prefixed name, so that prefix / only / except meet names that collide textually
    if !targets.contains(&"p:a".to_string()) {
        targets.push("p:a".into());
    }
    // targets that differ from an available name only in letter case
    for up in ["A", "B"] {
        if !targets.contains(&up.to_string()) {
            targets.push(up.into());
        }
    }
    let admissible = |pairs: &Vec<(String, String)>| -> bool {
        let res = model(&Term::Rename(Box::new(t.clone()), pairs.clone()));
        let mut names: Vec<&String> = res.iter().map(|(n, _)| n).collect();
        names.sort();
        names.windows(2).all(|w| w[0] != w[1])
    };
    // a pair that renames a name to itself, alone and next to a real renaming
    if n >= 1 {
        let same = (avail[0].clone(), avail[0].clone());
        out.push(Term::Rename(Box::new(t.clone()), vec![same.clone()]));
        if n >= 2 {
            for tj in ["x", "A"] {
                let p2 = vec![same.clone(), (avail[1].clone(), tj.to_string())];
                if admissible(&p2) {
                    out.push(Term::Rename(Box::new(t.clone()), p2.clone()));
                    if n >= 3 {
                        out.push(Term::Rename(Box::new(t.clone()), vec![p2[1].clone(), (avail[n - 1].clone(), avail[n - 1].clone())]));
                    }
                }
            }
        }
    }
    for i in 0..n {
        for ti in &targets {
            if *ti == avail[i] {
                continue;
            }
            let p1 = vec![(avail[i].clone(), ti.clone())];
            if admissible(&p1) {
                out.push(Term::Rename(Box::new(t.clone()), p1.clone()));
            }
            for j in 0..n {
                if j == i {
                    continue;
                }
                for tj in &targets {
                    if *tj == avail[j] || tj == ti {
                        continue;
                    }
                    let p2 = vec![(avail[i].clone(), ti.clone()), (avail[j].clone(), tj.clone())];
                    if admissible(&p2) {
                        out.push(Term::Rename(Box::new(t.clone()), p2));
                    }
                }
            }
        }
    }
    out
}

pub fn all_terms(max_depth: u32) -> Vec<Term> {
    let mut levels: Vec<Vec<Term>> = vec![vec![Term::Lib]];
    for _ in 0..max_depth {
        let mut next = vec![];
        for t in levels.last().unwrap() {
            next.extend(extensions(t));
        }
        levels.push(next);
    }
    levels.into_iter().flatten().collect()
}

fn test_lib_name() -> LibraryName {
    library_name!("t", "lib")
}

/// import declaration on a fresh bare interpreter in a fresh thread; returns the root frame afterwards
pub fn observe(decl: String) -> Result<Vec<(String, SVal)>, String> {
    sut::in_thread(move || {
        let mut s = match Session::bare() {
            Ok(s) => s,
            Err((site, msg)) => return Err(sut::panic_sig(&site, &msg)),
        };
        s.it.register_library_factory(LibraryFactory::Native(
            test_lib_name(),
            Box::new(|| exports().into_iter().map(|(n, v)| (n, Value::Number(Number::Integer(v)))).collect()),
        ));
        let it = &mut s.it;
        match guarded(|| it.eval(decl.chars())) {
            Err((site, msg)) => Err(sut::panic_sig(&site, &msg)),
            Ok(Err(e)) => Err(format!("import-error:{}", sut::err_info(&e).tag)),
            Ok(Ok(_)) => {
                let mut v: Vec<(String, SVal)> = s.root_bindings().into_iter().collect();
                v.sort_by(|a, b| a.0.cmp(&b.0));
                Ok(v)
            }
        }
    })
}

pub fn judge(terms: &[&Term]) -> Report {
    let decl = format!("(import {})", terms.iter().map(|t| render(t)).collect::<Vec<_>>().join(" "));
    let mut rep = Report::new(decl.clone());
    let mut ops = vec![];
    for t in terms {
        ops_used(t, &mut ops);
    }
    rep.nontrivial = terms.iter().any(|t| (depth(t) >= 2 && ops.len() >= 2) || has_swap_or_chain(t)) || terms.len() >= 2;
    let mut expected: Bindings = vec![];
    for t in terms {
        for b in model(t) {
            if !expected.contains(&b) {
                expected.push(b);
            }
        }
    }
    expected.sort();
    // determinism: several fresh threads (independent hash seeds)
    let mut first: Option<Vec<(String, SVal)>> = None;
    for round in 0..3 {
        // each run writes the identifier lists of only / except / rename in a different order
        let decl_r = format!("(import {})", terms.iter().map(|t| render_order(t, round)).collect::<Vec<_>>().join(" "));
        match observe(decl_r.clone()) {
            Err(sig) => {
                rep.fail(sig.clone(), format!("import failed: {}", sig));
                return rep;
            }
            Ok(got) => {
                if round == 0 {
                    rep.note = got.iter().map(|(n, v)| format!("{}={}", n, v.show())).collect::<Vec<_>>().join(" ");
                    let got_simple: Vec<(String, i32)> = got
                        .iter()
                        .map(|(n, v)| (n.clone(), match v {
                            SVal::Num(crate::sut::SNum::Int(i)) => *i,
                            _ => i32::MIN,
                        }))
                        .collect();
                    if got_simple != expected {
                        let names_ok = got_simple.iter().map(|g| &g.0).collect::<Vec<_>>() == expected.iter().map(|g| &g.0).collect::<Vec<_>>();
                        rep.fail(
                            if names_ok { "import-wrong-values" } else { "import-wrong-names" },
                            format!("expected {:?}, got {:?}", expected, got_simple),
                        );
                        return rep;
                    }
                    first = Some(got);
                } else if Some(&got) != first.as_ref() {
                    let sig = if decl_r == decl { "import-nondeterministic" } else { "import-depends-on-written-order" };
                    rep.fail(sig, format!("run {} `{}` differs from run 0", round, decl_r));
                    return rep;
                }
            }
        }
    }
    rep
}

/// several import declarations on one interpreter: a later declaration rebinds a name even when the new value is
/// `=`/`equal?`-like the old one (1/2 and 0.5, two closures of one lambda)
fn second_declaration_cases() -> Vec<(Vec<&'static str>, &'static str)> {
    vec![
        // two prefixes over one library in one interpreter: in one declaration, in successive ones, nested
        (vec!["(import (scheme base) (prefix (t twins) p-) (prefix (t twins) q-))"], "@(list p-x q-x p-y q-y (p-p) (q-q))=(1/2 1/2 0.5 0.5 1 2)"),
        (vec!["(import (scheme base) (prefix (t twins) p-))", "(import (prefix (t twins) q-))"], "@(list p-x q-x (p-p) (q-q))=(1/2 1/2 1 2)"),
        (vec!["(import (scheme base) (prefix (t twins) q-))", "(import (prefix (t twins) p-) (prefix (prefix (t twins) a-) b-))"], "@(list p-x q-x b-a-y)=(1/2 1/2 0.5)"),
        // the same declaration again after another one re-bound one of its names
        (vec!["(import (scheme base) (t twins))", "(import (rename (only (t twins) y) (y x)))", "(import (scheme base) (t twins))"], "(1/2 0.5 1 2)"),
        (vec!["(import (scheme base))", "(import (t twins))", "(import (rename (t twins) (p q) (q p)))", "(import (t twins))"], "(1/2 0.5 1 2)"),
        // only over a prefix whose text is also the beginning of an exported name
        (vec!["(import (scheme base) (only (prefix (t twins) x) xx xy))"], "@(list xx xy)=(1/2 0.5)"),
        (vec!["(import (scheme base) (only (prefix (prefix (t twins) p) p) ppp ppq ppx))"], "@(list (ppp) (ppq) ppx)=(1 2 1/2)"),
        (vec!["(import (scheme base) (except (prefix (t twins) q) qx qy qp))"], "@(list (qq))=(2)"),
        // a library whose second import declaration comes after a part of its body
        (vec!["(import (scheme base) (t late))"], "@late-v=(1 1/2 0.5)"),
        // a builtin imported under another name is the same procedure
        (vec!["(import (scheme base) (prefix (only (scheme base) car cdr) p-) (rename (only (scheme base) cons) (cons kons)))"], "@(list (eqv? p-car car) (eqv? p-cdr cdr) (eqv? kons cons) (eqv? p-car p-cdr) (p-car (kons 1 2)))=(#t #t #t #f 1)"),
        (vec!["(import (scheme base) (t twins))", "(import (rename (t twins) (x y) (y x) (p q) (q p)))"], "(0.5 1/2 2 1)"),
        (vec!["(import (scheme base) (rename (t twins) (x y) (y x) (p q) (q p)))", "(import (t twins))"], "(1/2 0.5 1 2)"),
        (vec!["(import (scheme base) (only (t twins) x p) (rename (only (t twins) y q) (y yy) (q qq)))", "(import (rename (only (t twins) y q) (y x) (q p)) (rename (only (t twins) x p) (x y) (p q)))"], "(0.5 1/2 2 1)"),
        (vec!["(import (scheme base) (t twins))", "(import (t twins))", "(import (prefix (t twins) z:))"], "(1/2 0.5 1 2)"),
        (vec!["(import (scheme base))", "(import (t twins))", "(import (rename (t twins) (x y) (y x)))"], "(0.5 1/2 1 2)"),
    ]
}

fn judge_second_declaration(decls: &[&str], expected: &str) -> Report {
    // "@EXPR=TEXT": the observation is EXPR instead of (list x y (p) (q))
    let (observe, expected): (String, &str) = match expected.strip_prefix('@') {
        Some(rest) => {
            let k = rest.rfind('=').unwrap();
            (rest[..k].to_string(), &rest[k + 1..])
        }
        None => ("(list x y (p) (q))".to_string(), expected),
    };
    let default_observation = observe == "(list x y (p) (q))";
    let text = format!("{}\n{}", decls.join("\n"), observe);
    let mut rep = Report::new(text);
    rep.nontrivial = true;
    rep.label("several-declarations");
    let decls: Vec<String> = decls.iter().map(|d| d.to_string()).collect();
    let o = sut::in_thread(move || {
        let mut s = match Session::bare() {
            Ok(s) => s,
            Err((site, msg)) => return Outcome::Panic { site, msg },
        };
        let lib = "(define-library (t twins) (import (scheme base)) (export x y p q) (begin (define x 1/2) (define y 0.5) (define (mk k) (lambda () k)) (define p (mk 1)) (define q (mk 2))))";
        match LibraryFactory::from_char_stream(&LibraryName(vec![LibraryNameElement::Identifier("t".into()), LibraryNameElement::Identifier("twins".into())]), lib.chars()) {
            Ok(f) => s.it.register_library_factory(f),
            Err(_) => return Outcome::NoValue,
        }
        let late = "(define-library (t late) (export late-v) (import (scheme base)) (begin (define a 1)) (import (prefix (t twins) w-)) (begin (define late-v (list a w-x w-y))))";
        if let Ok(f) = LibraryFactory::from_char_stream(&LibraryName(vec![LibraryNameElement::Identifier("t".into()), LibraryNameElement::Identifier("late".into())]), late.chars()) {
            s.it.register_library_factory(f);
        }
        for d in &decls {
            if let o @ (Outcome::Error(_) | Outcome::Panic { .. }) = s.eval(d) {
                return o;
            }
        }
        match s.eval_display(&observe) {
            Ok(Some(t)) => Outcome::Value(SVal::Str(t)),
            Ok(None) => Outcome::NoValue,
            Err(e) => Outcome::Value(SVal::Str(format!("error: {}", e))),
        }
    });
    rep.note = o.show();
    match &o {
        Outcome::Value(SVal::Str(t)) if t == expected => {}
        Outcome::Panic { site, msg } => rep.fail(sut::panic_sig(site, msg), "import panicked"),
        other => rep.fail(if default_observation { "later-declaration-does-not-rebind" } else { "declarations-bind-wrong-names-or-values" }, format!("expected {}, got {}", expected, other.show())),
    }
    rep
}

pub fn run(ctx: &Ctx) {
    ctx.set_rule(
        "import-set terms over a native 4-export library (a b c d with distinct values), enumerated exhaustively up to \
         nesting depth 2 (thorough 3, strided): only/except with every subset of the names available at that point, rename \
         with every admissible renaming of one or two names (targets among the available names and two fresh ones, incl. \
         swaps and chains, targets differing from an available name only in letter case), prefix with three prefixes \
         (two differing only in case); several declarations on one interpreter (two prefixes over one library; builtins imported under other names stay eqv? to the originals) rebinding names to values that are = / \
         equal?-like the old ones (1/2 and 0.5, two closures of one lambda); plus declarations with two and three import sets, and the bare library next to a depth-2 term over it; renamings include pairs that rename a name to itself. Each declaration is evaluated \
         on three fresh interpreters in fresh threads (independent hash seeds) with an empty root frame, whose bindings \
         afterwards must be exactly the model's (names and values) and identical across runs; the three runs write the \
         identifier lists and renaming pairs in three different orders (as enumerated, reversed, rotated). Non-trivial = depth >= 2 with \
         two different operators, a swap/chain renaming, or two import sets.",
    );
    let cases = second_declaration_cases();
    let keys: Vec<String> = (0..cases.len()).map(|i| i.to_string()).collect();
    ctx.texts("several-declarations", &keys, |k| {
        let (d, e) = &cases[k.parse::<usize>().unwrap()];
        judge_second_declaration(d, e)
    });
    let depth_max = ctx.tier.pick(2, 3);
    let terms = all_terms(depth_max);
    ctx.note(format!("{} terms up to depth {}", terms.len(), depth_max));
    let d2 = terms.iter().filter(|t| depth(t) <= 2).count() as u64;
    let stride_small = ctx.tier.pick(if d2 > 12_000 { (d2 / 9_000).max(1) } else { 1 }, 1);
    // depth <= 2
    let small: Vec<&Term> = terms.iter().filter(|t| depth(t) <= 2).collect();
    ctx.indexed("terms-depth<=2", small.len() as u64, stride_small, |i| Some(judge(&[small[i as usize]])));
    if depth_max >= 3 {
        let big: Vec<&Term> = terms.iter().filter(|t| depth(t) == 3).collect();
        let stride = (big.len() as u64 / 150_000).max(1);
        ctx.indexed("terms-depth-3", big.len() as u64, stride, |i| Some(judge(&[big[i as usize]])));
    }
    // two import sets in one declaration: pairs of depth<=1 terms with non-conflicting results
    let d1: Vec<&Term> = terms.iter().filter(|t| depth(t) <= 1).collect();
    let n = d1.len() as u64;
    let stride = ctx.tier.pick(((n * n) / 1500).max(1), ((n * n) / 40_000).max(1));
    // three import sets (sampled)
    let stride3 = ctx.tier.pick(((n * n * n) / 600).max(1), ((n * n * n) / 20_000).max(1));
    ctx.indexed("three-import-sets", n * n * n, stride3, |i| {
        let (a, b, c) = (d1[(i / (n * n)) as usize], d1[((i / n) % n) as usize], d1[(i % n) as usize]);
        let ms = [model(a), model(b), model(c)];
        let mut conflict = false;
        for x in 0..3 {
            for y in (x + 1)..3 {
                if ms[x].iter().any(|(n1, v1)| ms[y].iter().any(|(n2, v2)| n1 == n2 && v1 != v2)) {
                    conflict = true;
                }
            }
        }
        if conflict {
            None
        } else {
            Some(judge(&[a, b, c]))
        }
    });
    // the bare library next to a nested term over the same library, in both orders
    let d2terms: Vec<&Term> = terms.iter().filter(|t| depth(t) == 2).collect();
    let m = d2terms.len() as u64;
    let stride_b = ctx.tier.pick((m / 1200).max(1), (m / 30_000).max(1));
    ctx.indexed("bare-library-and-nested-term", 2 * m, stride_b, |i| {
        let t = d2terms[(i % m) as usize];
        let lib = Term::Lib;
        let conflict = model(t).iter().any(|(n1, v1)| exports().iter().any(|(n2, v2)| n1 == n2 && v1 != v2));
        if conflict {
            None
        } else if i / m == 0 {
            Some(judge(&[&lib, t]))
        } else {
            Some(judge(&[t, &lib]))
        }
    });
    ctx.indexed("two-import-sets", n * n, stride, |i| {
        let (a, b) = (d1[(i / n) as usize], d1[(i % n) as usize]);
        let (ma, mb) = (model(a), model(b));
        // admissible union: a name may not be bound to two different values
        let conflict = ma.iter().any(|(n1, v1)| mb.iter().any(|(n2, v2)| n1 == n2 && v1 != v2));
        if conflict {
            None
        } else {
            Some(judge(&[a, b]))
        }
    });
}
