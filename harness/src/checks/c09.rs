//! C09 — exact arithmetic is exact, inexactness is contagious.
use crate::numgrid::{canonical, outcome_num, random_opnd, NumSession, Opnd};
use crate::refnum::{conv_candidates, ex, same_f32, RNum};
use crate::runner::{Chooser, Ctx, Report};
use crate::sut::{self, Outcome, SNum};
use std::cell::RefCell;

#[derive(Clone, Copy, Debug, PartialEq)]
pub enum Op {
    Add,
    Sub,
    Mul,
    Div,
    Abs,
    Floor,
    Ceiling,
    FloorQuot,
    FloorRem,
}

impl Op {
    pub fn name(self) -> &'static str {
        match self {
            Op::Add => "+",
            Op::Sub => "-",
            Op::Mul => "*",
            Op::Div => "/",
            Op::Abs => "abs",
            Op::Floor => "floor",
            Op::Ceiling => "ceiling",
            Op::FloorQuot => "floor-quotient",
            Op::FloorRem => "floor-remainder",
        }
    }
}

pub const UNARY: [Op; 7] = [Op::Add, Op::Sub, Op::Mul, Op::Div, Op::Abs, Op::Floor, Op::Ceiling];
pub const BINARY: [Op; 6] = [Op::Add, Op::Sub, Op::Mul, Op::Div, Op::FloorQuot, Op::FloorRem];
pub const TERNARY: [Op; 4] = [Op::Add, Op::Sub, Op::Mul, Op::Div];

enum Expect {
    Val(RNum),
    DivZero,
    Unjudged,
}

/// do all intermediate results of the left fold fit the interpreter's exact representation?
/// (when one does not, the interpreter may legitimately continue inexactly from there on)
fn intermediates_representable(op: Op, a: &[RNum]) -> bool {
    if !matches!(op, Op::Add | Op::Sub | Op::Mul | Op::Div) || a.len() < 2 {
        return true;
    }
    let mut acc = a[0];
    for x in &a[1..] {
        let next = match op {
            Op::Add => Some(acc.add(*x)),
            Op::Sub => Some(acc.sub(*x)),
            Op::Mul => Some(acc.mul(*x)),
            Op::Div => acc.div(*x),
            _ => None,
        };
        match next {
            Some(r) => {
                if !r.representable() {
                    return false;
                }
                acc = r;
            }
            None => return true,
        }
    }
    true
}

/// expected result for all-exact operands
fn exact_expected(op: Op, a: &[RNum]) -> Expect {
    let fold = |f: &dyn Fn(RNum, RNum) -> Option<RNum>, unit: RNum| -> Expect {
        if a.len() == 1 {
            return match f(unit, a[0]) {
                Some(r) => Expect::Val(r),
                None => Expect::DivZero,
            };
        }
        let mut acc = a[0];
        for x in &a[1..] {
            match f(acc, *x) {
                Some(r) => acc = r,
                None => return Expect::DivZero,
            }
        }
        Expect::Val(acc)
    };
    match op {
        Op::Add => fold(&|x, y| Some(x.add(y)), RNum::int(0)),
        Op::Mul => fold(&|x, y| Some(x.mul(y)), RNum::int(1)),
        Op::Sub => fold(&|x, y| Some(x.sub(y)), RNum::int(0)),
        Op::Div => fold(&|x, y| x.div(y), RNum::int(1)),
        Op::Abs => Expect::Val(a[0].abs()),
        Op::Floor => Expect::Val(a[0].floor()),
        Op::Ceiling => Expect::Val(a[0].ceiling()),
        Op::FloorQuot => match a[0].div(a[1]) {
            Some(q) => Expect::Val(q.floor()),
            None => Expect::DivZero,
        },
        Op::FloorRem => match a[0].div(a[1]) {
            Some(q) => Expect::Val(a[0].sub(a[1].mul(q.floor()))),
            None => Expect::DivZero,
        },
    }
}

fn f32_op(op: Op, x: f32, y: f32) -> f32 {
    match op {
        Op::Add => x + y,
        Op::Sub => x - y,
        Op::Mul => x * y,
        Op::Div => x / y,
        _ => unreachable!(),
    }
}

/// candidate binary32 results when at least one operand is inexact (None = not judged)
fn inexact_candidates(op: Op, args: &[&Opnd]) -> Option<Vec<f32>> {
    let convs: Vec<Vec<f32>> = args.iter().map(|o| conv_candidates(&o.snum)).collect();
    let mut out: Vec<f32> = vec![];
    let mut push = |v: f32| {
        if !out.iter().any(|x| same_f32(*x, v)) {
            out.push(v);
        }
    };
    match op {
        Op::Abs => push(convs[0][0].abs()),
        Op::Floor => push(convs[0][0].floor()),
        Op::Ceiling => push(convs[0][0].ceil()),
        Op::FloorQuot | Op::FloorRem => {
            if args[1].r == RNum::Ex(0, 1) {
                return None; // exact zero divisor with inexact dividend: not covered by the statement
            }
            for &a in &convs[0] {
                for &b in &convs[1] {
                    let q = (a / b).floor();
                    if op == Op::FloorQuot {
                        push(q);
                    } else {
                        push(a - q * b);
                        push((a as f64 - (q as f64) * (b as f64)) as f32);
                        push((-q).mul_add(b, a));
                    }
                }
            }
        }
        Op::Add | Op::Sub | Op::Mul | Op::Div => {
            let unit = if matches!(op, Op::Add | Op::Sub) { 0.0f32 } else { 1.0f32 };
            // strategy family: `prefix` = number of leading exact operands folded exactly before conversion
            let n_exact_prefix = args.iter().take_while(|o| o.r.is_exact()).count();
            for which_conv in 0..2usize {
                let conv = |i: usize| -> f32 { *convs[i].get(which_conv).unwrap_or(&convs[i][0]) };
                // (a) convert everything first
                if args.len() == 1 {
                    push(f32_op(op, unit, conv(0)));
                    if matches!(op, Op::Add | Op::Mul) {
                        push(conv(0));
                    }
                    if op == Op::Sub {
                        push(-conv(0));
                    }
                } else {
                    let mut acc = conv(0);
                    for i in 1..args.len() {
                        acc = f32_op(op, acc, conv(i));
                    }
                    push(acc);
                    // the implementation's n-ary + and * start from the exact unit
                    if matches!(op, Op::Add | Op::Mul) {
                        let mut acc = unit;
                        for i in 0..args.len() {
                            acc = f32_op(op, acc, conv(i));
                        }
                        push(acc);
                    }
                }
                // (b) an exact prefix (of every length >= 2) folded exactly, then converted: the fold may leave exact
                // arithmetic at the first intermediate it cannot represent and carry on with binary32 operations
                for k in 2..=n_exact_prefix.min(args.len()) {
                    let pre: Vec<RNum> = args[..k].iter().map(|o| o.r).collect();
                    // exact zero divisor inside the exact prefix: expected to be an error, handled by caller
                    if let Expect::Val(r) = exact_expected(op, &pre) {
                        // reduced conversion and unreduced (schoolbook) conversion
                        let mut starts = vec![r.to_f32()];
                        if let RNum::Ex(n, d) = r {
                            // an unrepresentable exact intermediate may be carried on as an inexact number
                            starts.push((n as f64 / d as f64) as f32);
                        }
                        if let Some((n, d)) = schoolbook(op, &args[..k]) {
                            starts.push(n as f32 / d as f32);
                        }
                        for s in starts {
                            let mut acc = s;
                            for i in k..args.len() {
                                acc = f32_op(op, acc, conv(i));
                            }
                            push(acc);
                        }
                    }
                }
            }
        }
    }
    Some(out)
}

/// unreduced result of the textbook formulas on the operand representations (in i128)
fn schoolbook(op: Op, args: &[&Opnd]) -> Option<(i128, i128)> {
    let rep = |o: &Opnd| -> (i128, i128) {
        match o.snum {
            SNum::Int(n) => (n as i128, 1),
            SNum::Rat(a, b) => (a as i128, b as i128),
            SNum::Real(_) => (0, 1),
        }
    };
    let (mut n, mut d) = rep(args[0]);
    for o in &args[1..] {
        let (a, b) = rep(o);
        let (nn, dd) = match op {
            Op::Add => (n * b + d * a, d * b),
            Op::Sub => (n * b - d * a, d * b),
            Op::Mul => (n * a, d * b),
            Op::Div => (n * b, d * a),
            _ => return None,
        };
        n = nn;
        d = dd;
        if d == 0 {
            return None;
        }
    }
    Some((n, d))
}

fn exact_zero_divisor_after_inexact(op: Op, args: &[&Opnd]) -> bool {
    if op != Op::Div {
        return false;
    }
    let mut inexact = false;
    for (i, o) in args.iter().enumerate() {
        if i > 0 && inexact && o.r == RNum::Ex(0, 1) {
            return true;
        }
        if !o.r.is_exact() {
            inexact = true;
        }
    }
    // unary (/ x) with x inexact never divides by an exact zero
    false
}

fn exact_zero_divisor_in_exact_prefix(op: Op, args: &[&Opnd]) -> bool {
    if op != Op::Div || args.len() < 2 {
        return false;
    }
    for (i, o) in args.iter().enumerate() {
        if !o.r.is_exact() {
            return false;
        }
        if i > 0 && o.r == RNum::Ex(0, 1) {
            return true;
        }
    }
    false
}

/// returns (signature, detail) of a failure, or None
pub fn judge_once(obs: &Outcome, op: Op, args: &[&Opnd]) -> Option<(String, String)> {
    if let Outcome::Panic { site, msg } = obs {
        return Some((sut::panic_sig(site, msg), format!("panic at {}: {}", site, sut::norm_msg(msg))));
    }
    let all_exact = args.iter().all(|o| o.r.is_exact());
    if all_exact {
        let rs: Vec<RNum> = args.iter().map(|o| o.r).collect();
        let small = args.iter().all(|o| o.small);
        let inter_ok = intermediates_representable(op, &rs);
        match exact_expected(op, &rs) {
            Expect::Unjudged => None,
            Expect::DivZero if !inter_ok => None, // an unrepresentable intermediate may have become inexact before the zero divisor
            Expect::DivZero => match obs {
                Outcome::Error(e) if e.tag == "Logic::DivisionByZero" => None,
                other => Some((format!("divzero-not-signalled:{}", op.name()), format!("expected division-by-zero error, got {}", other.show()))),
            },
            Expect::Val(r) => {
                let claim = small && r.representable() && inter_ok;
                let size = if small { "" } else { "-large" };
                match obs {
                    Outcome::Value(_) => match outcome_num(obs) {
                        Some(n) if n.is_exact() => match RNum::of(&n) {
                            Some(v) if v == r => None,
                            _ => Some((
                                format!("wrong-exact{}:{}", size, op.name()),
                                format!("expected exact {}, got exact {}", r.show(), n.show()),
                            )),
                        },
                        Some(n) => {
                            if claim {
                                Some((format!("inexact-for-small-exact:{}", op.name()), format!("expected exact {}, got inexact {}", r.show(), n.show())))
                            } else {
                                None
                            }
                        }
                        None => Some((format!("non-number:{}", op.name()), format!("got {}", obs.show()))),
                    },
                    Outcome::Error(e) => {
                        if claim {
                            Some((format!("error-for-small-exact:{}:{}", op.name(), e.tag), format!("expected exact {}, got {}", r.show(), obs.show())))
                        } else {
                            None
                        }
                    }
                    other => Some((format!("no-result:{}", op.name()), other.show())),
                }
            }
        }
    } else {
        if exact_zero_divisor_after_inexact(op, args) {
            return None;
        }
        let n_pre = args.iter().take_while(|o| o.r.is_exact()).count();
        let pre: Vec<RNum> = args[..n_pre].iter().map(|o| o.r).collect();
        if exact_zero_divisor_in_exact_prefix(op, args) && intermediates_representable(op, &pre) {
            return match obs {
                Outcome::Error(e) if e.tag == "Logic::DivisionByZero" => None,
                other => Some((format!("divzero-not-signalled:{}", op.name()), format!("exact prefix divides by zero, got {}", other.show()))),
            };
        }
        let cands = match inexact_candidates(op, args) {
            Some(c) => c,
            None => return None,
        };
        match outcome_num(obs) {
            Some(SNum::Real(bits)) => {
                let x = f32::from_bits(bits);
                // the sign of a zero result is not pinned for the n-ary operators (the unit they start from is exact 0 / 1,
                // and (- 0.0) is computed as 0 - 0.0); it is pinned for abs, floor, ceiling, floor-quotient, floor-remainder
                let zero_sign_free = matches!(op, Op::Add | Op::Sub | Op::Mul | Op::Div);
                if cands.iter().any(|c| same_f32(*c, x) || (zero_sign_free && *c == 0.0 && x == 0.0)) {
                    None
                } else {
                    Some((
                        format!("inexact-result-wrong:{}", op.name()),
                        format!("got {:?}, IEEE candidates {:?}", x, cands),
                    ))
                }
            }
            Some(n) => Some((format!("contagion-lost:{}", op.name()), format!("inexact operand but exact result {}", n.show()))),
            None => Some((format!("inexact-no-number:{}", op.name()), format!("got {}, candidates {:?}", obs.show(), cands))),
        }
    }
}

thread_local! {
    static NS: RefCell<Option<(NumSession, Vec<Opnd>)>> = const { RefCell::new(None) };
}

pub fn with_ns<T>(f: impl FnOnce(&NumSession, &[Opnd]) -> T) -> T {
    NS.with(|c| {
        if c.borrow().is_none() {
            let mut ns = NumSession::new();
            let g = ns.grid();
            *c.borrow_mut() = Some((ns, g));
        }
        let b = c.borrow();
        let (ns, g) = b.as_ref().unwrap();
        f(ns, g)
    })
}

fn noncanon_kinds(args: &[&Opnd]) -> Vec<&'static str> {
    let mut k = vec![];
    for o in args {
        if let SNum::Rat(a, b) = o.snum {
            if b < 0 && !k.contains(&"negden") {
                k.push("negden");
            }
            if b == 1 || b == -1 {
                if !k.contains(&"den1") {
                    k.push("den1");
                }
            } else if crate::refnum::gcd(a as i128, b as i128) != 1 && !k.contains(&"unreduced") {
                k.push("unreduced");
            }
        }
    }
    k.sort();
    k
}

pub fn judge(ns: &NumSession, op: Op, args: &[&Opnd]) -> Report {
    let key = format!("({} {})", op.name(), args.iter().map(|o| o.text.as_str()).collect::<Vec<_>>().join(" "));
    let mut rep = Report::new(key);
    let p = ns.proc_named(op.name());
    let obs = ns.apply(&p, args);
    rep.note = obs.show();
    let res_differs = match outcome_num(&obs) {
        Some(n) => args.iter().all(|o| !o.snum.same_value(&n)),
        None => true,
    };
    rep.nontrivial = res_differs || args.iter().any(|o| !matches!(o.snum, SNum::Int(n) if (n as i64).abs() < 1000));
    if let Some((sig, detail)) = judge_once(&obs, op, args) {
        // attribution by experiment: does the failure disappear with canonical representations of the same values?
        let kinds = noncanon_kinds(args);
        if !kinds.is_empty() && !sig.starts_with("panic@") {
            let canon: Vec<Option<Opnd>> = args.iter().map(|o| if o.canonical { Some((*o).clone()) } else { canonical(o) }).collect();
            if canon.iter().all(|c| c.is_some()) {
                let cv: Vec<Opnd> = canon.into_iter().map(|c| c.unwrap()).collect();
                let refs: Vec<&Opnd> = cv.iter().collect();
                let obs2 = ns.apply(&p, &refs);
                if judge_once(&obs2, op, &refs).is_none() {
                    rep.fail(
                        format!("noncanonical-operand:{}:{}", kinds.join("+"), sig),
                        format!("{} (passes with canonical operands: {})", detail, obs2.show()),
                    );
                    return rep;
                }
            }
        }
        rep.fail(sig, detail);
    }
    rep
}

pub fn run(ctx: &Ctx) {
    ctx.set_rule(
        "operations + - * / abs floor ceiling floor-quotient floor-remainder applied (through apply_procedure on the \
         procedures exported by (scheme base)) to ready-made number values: every unary op x grid, every binary op x \
         grid^2, every 3-operand fold of + - * / x grid^3 (quick: strided sample), plus random operands built directly \
         as values so that every representation (unreduced, negative denominator) occurs. Oracle: exact rationals in \
         i128; IEEE binary32 bit patterns for inexact operands (set of admissible fold/conversion orders). \
         Non-trivial = some operand is not a small integer, or the result differs from every operand.",
    );
    ctx.assume("reference arithmetic in i128 is trusted; 'always exact' is claimed when every operand numerator/denominator is below 2^15 and the exact result fits i32/i32");
    let n = with_ns(|_, g| g.len()) as u64;
    ctx.note(format!("grid size {}", n));

    ctx.indexed("unary", UNARY.len() as u64 * n, 1, |i| {
        Some(with_ns(|ns, g| {
            let op = UNARY[(i / n) as usize];
            judge(ns, op, &[&g[(i % n) as usize]])
        }))
    });
    ctx.indexed("binary", BINARY.len() as u64 * n * n, 1, |i| {
        Some(with_ns(|ns, g| {
            let op = BINARY[(i / (n * n)) as usize];
            let r = i % (n * n);
            judge(ns, op, &[&g[(r / n) as usize], &g[(r % n) as usize]])
        }))
    });
    let stride = ctx.tier.pick(5, 1);
    ctx.indexed("ternary", TERNARY.len() as u64 * n * n * n, stride, |i| {
        Some(with_ns(|ns, g| {
            let op = TERNARY[(i / (n * n * n)) as usize];
            let r = i % (n * n * n);
            judge(ns, op, &[&g[(r / (n * n)) as usize], &g[((r / n) % n) as usize], &g[(r % n) as usize]])
        }))
    });
    let cases = ctx.tier.pick(150_000, 1_500_000);
    ctx.random("random", cases, 24, |ch| random_case(ch));
}

fn random_case(ch: &mut Chooser) -> Report {
    // (the n-ary operations also with four and five operands, half of those taken from the grid)
    let arity = 1 + ch.weighted(&[4, 10, 6, 3, 2]);
    let op = match arity {
        1 => *ch.pick(&UNARY),
        2 => *ch.pick(&BINARY),
        _ => *ch.pick(&TERNARY),
    };
    let from_grid = arity >= 4 && ch.chance(1, 2);
    let picks: Vec<u32> = (0..arity).map(|_| ch.below(1 << 16) as u32).collect();
    let ops: Vec<Opnd> = (0..arity).map(|_| random_opnd(ch)).collect();
    with_ns(|ns, g| {
        let refs: Vec<&Opnd> = if from_grid { picks.iter().map(|k| &g[(*k as usize * g.len()) >> 16]).collect() } else { ops.iter().collect() };
        if arity >= 4 {
            // the reference arithmetic works in i128: folds whose exact intermediates may not fit are not judged
            let bits: u32 = refs
                .iter()
                .map(|o| match o.snum {
                    crate::sut::SNum::Int(n) => 128 - (n as i128).unsigned_abs().leading_zeros(),
                    crate::sut::SNum::Rat(a, b) => 256 - (a as i128).unsigned_abs().leading_zeros() - (b as i128).unsigned_abs().leading_zeros(),
                    crate::sut::SNum::Real(_) => 0,
                })
                .sum();
            if bits > 110 {
                let mut rep = Report::new(format!("({} {})", op.name(), refs.iter().map(|o| o.text.as_str()).collect::<Vec<_>>().join(" ")));
                rep.skipped = Some("reference-arithmetic-range".into());
                return rep;
            }
        }
        let mut rep = judge(ns, op, &refs);
        rep.label(format!("operands:{}", arity));
        rep
    })
}

#[allow(dead_code)]
fn _keep(_: RNum) -> RNum {
    ex(1, 1)
}
