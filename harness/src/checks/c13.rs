//! C13 — libraries are encapsulated and loaded once per program.
use crate::ast::*;
use crate::progcheck::{compare_machine, obs_text, Cmp, Obs};
use crate::refeval::{Machine, ORDERS};
use crate::runner::{Chooser, Ctx, Report};
use crate::sut::{self, Session};
use ruschm::interpreter::LibraryFactory;
use ruschm::parser::{LibraryName, LibraryNameElement};

fn d(n: &str, v: Expr) -> Form {
    Form::Define(Def { name: n.into(), value: v, sugar: false })
}
fn dp(n: &str, fixed: &[&str], body: Vec<Expr>) -> Form {
    Form::Define(Def {
        name: n.into(),
        value: Expr::Lambda(Formals { fixed: fixed.iter().map(|s| s.to_string()).collect(), rest: None }, Box::new(Body { defs: vec![], exprs: body })),
        sugar: true,
    })
}
fn sym(s: &str) -> Expr {
    Expr::Quote(Datum::Sym(s.into()))
}

pub struct Case {
    pub libs: Vec<LibDef>,
    pub program: Vec<Form>,
    pub labels: Vec<&'static str>,
    pub as_files: bool,
}

fn lib_name(i: usize) -> String {
    format!("my l{}", i)
}

pub fn gen_case(ch: &mut Chooser) -> Case {
    let n_libs = 1 + ch.below(3);
    let mut libs: Vec<LibDef> = vec![];
    let mut labels: Vec<&'static str> = vec![];
    // which procedures each library exports, under which external name
    let mut ext: Vec<Vec<(String, String)>> = vec![];
    // (library, own-abs, exported vector, its writer, its reader): called with arguments of their own
    let mut special: Vec<(usize, String, String, String, String)> = vec![];
    for i in 1..=n_libs {
        let k = 1 + ch.below(5) as i32;
        let hconst = 10 * i as i32;
        let mut imports = vec![ImportSpec::plain("scheme base")];
        let mut deps = vec![];
        let mut dep_specs = vec![];
        for j in 1..i {
            if ch.chance(1, 2) {
                dep_specs.push(ImportSpec::plain(&lib_name(j)));
                deps.push(j);
            }
        }
        // the imports of other libraries either in the first declaration or in a later one, after the state exists
        let late_imports = !deps.is_empty() && ch.chance(1, 2);
        if !late_imports {
            imports.extend(dep_specs.clone());
        }
        let renamed = ch.chance(1, 2);
        // internal names either generic (exported with rename) or already unique (exported directly)
        let nm = |base: &str| -> (String, String) {
            let external = format!("{}-l{}", base, i);
            if renamed {
                (base.to_string(), external)
            } else {
                (external.clone(), external)
            }
        };
        let (next_i, next_e) = nm("next");
        let (peek_i, peek_e) = nm("peek");
        let (useh_i, useh_e) = nm("use-helper");
        let (leak_i, leak_e) = nm("leak");
        let (gets_i, gets_e) = nm("get-shared");
        let mut body = vec![
            d("count", Expr::Int(0)),
            dp("helper", &["x"], vec![app("+", vec![var("x"), Expr::Int(hconst)])]),
            dp(&next_i, &[], vec![Expr::Set("count".into(), Box::new(app("+", vec![var("count"), Expr::Int(k)]))), var("count")]),
            dp(&peek_i, &[], vec![var("count")]),
            dp(&useh_i, &["x"], vec![app("helper", vec![var("x")])]),
            dp(&leak_i, &[], vec![var("importer-only")]),
            d("shared-name", sym(&format!("lib{}", i))),
            dp(&gets_i, &[], vec![var("shared-name")]),
        ];
        // the library's own procedure named like one it imports from (scheme base), published under another name; and a
        // vector it exports and mutates through a procedure
        let (abs_i, abs_e) = ("abs".to_string(), format!("own-abs-l{}", i));
        body.push(dp(&abs_i, &["x"], vec![app("list", vec![sym("own-abs"), var("x")])]));
        let (reg_i, reg_e) = nm("reg");
        let (claim_i, claim_e) = nm("claim!");
        let (seen_i, seen_e) = nm("seen");
        body.push(d(&reg_i, app("vector", vec![sym("free"), sym("free")])));
        body.push(dp(&claim_i, &["k", "who"], vec![app("vector-set!", vec![var(&reg_i), var("k"), var("who")]), Expr::Int(0)]));
        body.push(dp(&seen_i, &[], vec![app("list", vec![app("vector-ref", vec![var(&reg_i), Expr::Int(0)]), app("vector-ref", vec![var(&reg_i), Expr::Int(1)])])]));
        // plain expressions in the library body: they run once, when the library is instantiated
        if ch.chance(1, 2) {
            body.push(Form::Expr(Expr::Set("count".into(), Box::new(Expr::Int(40 * i as i32)))));
            body.push(Form::Expr(app("vector-set!", vec![var(&reg_i), Expr::Int(1), sym("booted")])));
            if !late_imports {
                for j in &deps {
                    // the other library's state advances while this one is being loaded
                    body.push(Form::Expr(app(&format!("next-l{}", j), vec![])));
                }
            }
            if !labels.contains(&"expression-in-library-body") {
                labels.push("expression-in-library-body");
            }
        }
        // a syntax definition private to the library, of a name the importer may use for a procedure of its own
        if ch.chance(1, 3) {
            body.push(Form::Raw("(define-syntax twice (syntax-rules () ((twice e) (+ e e))))".into()));
            if !labels.contains(&"library-private-macro") {
                labels.push("library-private-macro");
            }
        }
        if late_imports {
            body.push(Form::Import(dep_specs.clone()));
            labels.push("import-declaration-after-body-part");
        }
        // defined after the (possibly late) import declaration, reading the state defined before it
        let (peek2_i, peek2_e) = nm("peek-again");
        body.push(dp(&peek2_i, &[], vec![var("count")]));
        let mut exports = vec![(next_i.clone(), next_e), (peek_i.clone(), peek_e), (useh_i, useh_e), (leak_i, leak_e), (gets_i, gets_e), (peek2_i, peek2_e)];
        special.push((i, abs_e.clone(), reg_e.clone(), claim_e.clone(), seen_e.clone()));
        exports.push((abs_i, abs_e));
        exports.push((reg_i, reg_e));
        exports.push((claim_i, claim_e));
        exports.push((seen_i, seen_e));
        // an external name that is also the name of an unexported internal binding: (rename next helper) publishes
        // next under the name helper; the library's own helper is untouched
        if n_libs == 1 && ch.chance(1, 3) {
            exports.push((next_i.clone(), "helper".to_string()));
            exports.push((peek_i.clone(), "count".to_string()));
            labels.push("external-name-equals-internal-name");
        }
        // one binding published under two external names (adjacent or separated in the export list)
        match ch.below(4) {
            0 => {
                exports.insert(1, (next_i.clone(), format!("alias-next-l{}", i)));
                labels.push("binding-exported-twice");
            }
            1 => {
                exports.push((next_i.clone(), format!("alias-next-l{}", i)));
                exports.push((peek_i.clone(), format!("alias-peek-l{}", i)));
                labels.push("binding-exported-twice");
            }
            _ => {}
        }
        for j in &deps {
            // uses the other library's exported procedure under its external name
            let (via_i, via_e) = nm(&format!("via{}", j));
            body.push(dp(&via_i, &[], vec![app(&format!("next-l{}", j), vec![])]));
            exports.push((via_i, via_e));
            if !labels.contains(&"library-imports-library") {
                labels.push("library-imports-library");
            }
        }
        if renamed && !labels.contains(&"export-rename") {
            labels.push("export-rename");
        }
        ext.push(exports.clone());
        libs.push(LibDef { name: lib_name(i), imports, exports, body });
    }
    // the program imports some libraries directly, possibly one of them twice (second time with a prefix)
    let mut specs = vec![ImportSpec::plain("scheme base")];
    let mut direct: Vec<(usize, String)> = vec![];
    for i in 1..=n_libs {
        if i == n_libs || ch.chance(2, 3) {
            specs.push(ImportSpec::plain(&lib_name(i)));
            direct.push((i, String::new()));
        }
    }
    if ch.chance(1, 2) {
        let (i, _) = direct[ch.below(direct.len())].clone();
        specs.push(ImportSpec { lib: lib_name(i), prefix: Some("p:".into()) });
        direct.push((i, "p:".to_string()));
        labels.push("two-import-sets-of-one-library");
    }
    // the import declarations: one form, or one form per import set, optionally with a failing declaration in between
    // (all import declarations precede the first expression/definition: the interpreter accepts them only there)
    let mut program = vec![];
    if ch.chance(1, 2) {
        program.push(Form::Import(specs));
    } else {
        labels.push("several-import-declarations");
        let fail_at = if ch.chance(1, 2) { Some(1 + ch.below(specs.len())) } else { None };
        for (k, sp) in specs.into_iter().enumerate() {
            if fail_at == Some(k) {
                program.push(Form::Import(vec![ImportSpec::plain("my nosuch")]));
                labels.push("failed-import-in-history");
            }
            program.push(Form::Import(vec![sp]));
        }
        if fail_at == Some(program.len()) {
            program.push(Form::Import(vec![ImportSpec::plain("my nosuch")]));
        }
    }
    // callable imported names
    let mut callable: Vec<(String, usize)> = vec![];
    for (i, prefix) in &direct {
        for (_, e) in &ext[*i - 1] {
            // (the procedures with arguments of their own and the exported vector are used by a step of their own)
            if e.starts_with("own-abs") || e.starts_with("reg") || e.starts_with("claim!") {
                continue;
            }
            callable.push((format!("{}{}", prefix, e), *i));
        }
    }
    // the special exports of the directly imported libraries, under the names the program knows them by
    let special_here: Vec<(String, String, String, String)> = direct
        .iter()
        .filter_map(|(i, prefix)| special.iter().find(|s| s.0 == *i).map(|s| (format!("{}{}", prefix, s.1), format!("{}{}", prefix, s.2), format!("{}{}", prefix, s.3), format!("{}{}", prefix, s.4))))
        .collect();
    let steps = 6 + ch.below(16);
    for _ in 0..steps {
        match ch.weighted(&[10, 3, 2, 2, 2, 2, 3]) {
            6 => {
                let (abs_n, reg_n, claim_n, seen_n) = special_here[ch.below(special_here.len())].clone();
                let e = match ch.below(5) {
                    0 => app(&abs_n, vec![Expr::Int(-5)]),
                    1 => app(&claim_n, vec![Expr::Int(ch.below(2) as i32), sym(*ch.pick(&["prog", "again"]))]),
                    2 => app("vector-set!", vec![var(&reg_n), Expr::Int(ch.below(2) as i32), sym("direct")]),
                    3 => app(&seen_n, vec![]),
                    _ => var(&reg_n),
                };
                program.push(Form::Expr(e));
                if !labels.contains(&"exported-vector-and-shadowing-export") {
                    labels.push("exported-vector-and-shadowing-export");
                }
            }
            0 => {
                let (name, _) = callable[ch.below(callable.len())].clone();
                let e = if name.contains("use-helper") { app(&name, vec![Expr::Int(ch.range(0, 5) as i32)]) } else { app(&name, vec![]) };
                if name.contains("via") && !labels.contains(&"state-through-two-paths") {
                    labels.push("state-through-two-paths");
                }
                program.push(Form::Expr(e));
            }
            1 => {
                // names colliding with library internals
                let f = match ch.below(7) {
                    5 => dp("twice", &["x"], vec![app("list", vec![sym("importer-twice"), var("x")])]),
                    6 => Form::Expr(app("twice", vec![Expr::Int(3)])),
                    0 => dp("helper", &["x"], vec![sym("importer-helper")]),
                    1 => d("count", Expr::Int(1000)),
                    2 => d("shared-name", sym("importer")),
                    3 => d("importer-only", Expr::Int(42)),
                    _ => d("next", Expr::Int(5)),
                };
                program.push(f);
                if !labels.contains(&"collision-with-internal") {
                    labels.push("collision-with-internal");
                }
            }
            2 => {
                // redefine an imported name in the importer
                let (name, _) = callable[ch.below(callable.len())].clone();
                // ... sometimes with the very text of the library's own definition (the importer's procedure then works on
                // the importer's variables, not on the library's)
                let same_text = libs.iter().flat_map(|l| l.body.iter()).find(|f| matches!(f, Form::Define(dd) if dd.name == name)).cloned();
                match same_text {
                    Some(f) if ch.chance(1, 2) => {
                        if ch.chance(1, 2) {
                            program.push(d("count", Expr::Int(1000)));
                        }
                        program.push(f);
                        program.push(Form::Expr(app(&name, if name.contains("use-helper") { vec![Expr::Int(1)] } else { vec![] })));
                        if !labels.contains(&"redefined-with-the-library's-own-text") {
                            labels.push("redefined-with-the-library's-own-text");
                        }
                    }
                    _ => program.push(dp(&name, &[], vec![sym("redefined-by-importer")])),
                }
                if !labels.contains(&"redefine-imported") {
                    labels.push("redefine-imported");
                }
            }
            3 => {
                // reference to a name the importer should not see unless it defined it itself
                program.push(Form::Expr(var(*ch.pick(&["helper", "count", "shared-name", "next", "peek"]))));
            }
            4 => {
                program.push(Form::Expr(Expr::Set("count".into(), Box::new(Expr::Int(-1)))));
            }
            _ => {
                // call through the importer's own wrapper
                let (name, _) = callable[ch.below(callable.len())].clone();
                if !name.contains("use-helper") {
                    program.push(Form::Expr(app("list", vec![app(&name, vec![]), app(&name, vec![])])));
                }
            }
        }
    }
    Case { libs, program, labels, as_files: ch.chance(1, 4) }
}

fn to_library_name(name: &str) -> LibraryName {
    LibraryName(name.split(' ').map(|p| LibraryNameElement::Identifier(p.to_string())).collect())
}

pub fn run_case(c: &Case) -> Obs {
    let libs: Vec<(String, String)> = c.libs.iter().map(|l| (l.name.clone(), l.render())).collect();
    let forms: Vec<String> = c.program.iter().map(render_form).collect();
    let as_files = c.as_files;
    sut::in_thread(move || {
        let mut s = Session::bare().unwrap().with_budget(sut::Budget::GENEROUS);
        let mut dir = None;
        if as_files {
            let d = std::env::temp_dir().join(format!("rv-c13-{}-{:?}", std::process::id(), std::thread::current().id()));
            let _ = std::fs::remove_dir_all(&d);
            for (k, (name, text)) in libs.iter().enumerate() {
                let parts: Vec<&str> = name.split(' ').collect();
                // every other file holds a second library in front of the wanted one: its one-identifier name a/b maps to
                // the same file path as (a b), and it is a different library all the same
                let decoy = if parts.len() >= 2 && k % 2 == 0 { format!("(define-library ({}) (export decoy-v) (begin (define decoy-v 0)))\n", parts.join("/")) } else { String::new() };
                let text = &format!("{}{}", decoy, text);
                let mut sub = d.clone();
                for p in &parts[..parts.len() - 1] {
                    sub = sub.join(p);
                }
                std::fs::create_dir_all(&sub).unwrap();
                std::fs::write(sub.join(format!("{}.sld", parts[parts.len() - 1])), text).unwrap();
            }
            s.it.program_directory = Some(d.clone());
            dir = Some(d);
        } else {
            for (name, text) in &libs {
                match LibraryFactory::from_char_stream(&to_library_name(name), text.chars()) {
                    Ok(f) => s.it.register_library_factory(f),
                    Err(e) => eprintln!("[rv] c13: cannot register {}: {}", name, e),
                }
            }
        }
        let mut out = vec![];
        for f in &forms {
            out.push((s.eval(f), vec![]));
        }
        if let Some(d) = dir {
            let _ = std::fs::remove_dir_all(d);
        }
        out
    })
}

pub fn model_machine(c: &Case, per_import: bool) -> Machine {
    let mut m = Machine::bare(ORDERS[0]);
    for l in &c.libs {
        m.libs.insert(l.name.clone(), l.clone());
    }
    m.instance_per_import = per_import;
    m
}

pub fn judge(c: &Case) -> Report {
    let text = format!("{}\n;; program ({})\n{}", c.libs.iter().map(|l| l.render()).collect::<Vec<_>>().join(""), if c.as_files { "libraries as files" } else { "registered sources" }, c.program.iter().map(render_form).collect::<Vec<_>>().join("\n"));
    let mut rep = Report::new(text);
    for l in &c.labels {
        rep.label(*l);
    }
    rep.label(if c.as_files { "files" } else { "registered" });
    rep.nontrivial = c.labels.iter().any(|l| matches!(*l, "collision-with-internal" | "redefine-imported" | "state-through-two-paths" | "two-import-sets-of-one-library" | "failed-import-in-history" | "binding-exported-twice" | "import-declaration-after-body-part" | "external-name-equals-internal-name"));
    let obs = run_case(c);
    rep.note = obs_text(&obs);
    match compare_machine(&c.program, &obs, model_machine(c, false)) {
        Cmp::Pass => {}
        Cmp::Skip(w) => rep.skipped = Some(w.split(':').next().unwrap_or("").to_string()),
        Cmp::Fail { form, sig, detail } => {
            // attribution by experiment: does the interpreter agree with the model "one instance per import"?
            if let Cmp::Pass = compare_machine(&c.program, &obs, model_machine(c, true)) {
                rep.fail("library-instance-per-import", format!("form {} `{}`: {} (agrees with a model that instantiates the library once per import)", form, render_form(&c.program[form]), detail));
            } else {
                rep.fail(sig, format!("form {} `{}`: {}", form, render_form(&c.program[form]), detail));
            }
        }
    }
    rep
}

pub fn run(ctx: &Ctx) {
    ctx.set_rule(
        "random library/program pairs: 1-3 libraries (registered sources, a quarter as .sld files in a temporary program \
         directory) with exports with and without rename, an unexported helper, internal state (define + set!), a procedure \
         referring to an importer-only name, imports of each other (acyclic); an importing program (optionally importing \
         one library twice, the second time prefixed; the import sets in one declaration or one declaration each, \
         optionally with a failing declaration in between; one binding exported under two external names; a syntax definition private to a library whose keyword the \
         importer uses for a procedure of its own; an import declaration placed after the part of the body that creates the state) that calls exported procedures, defines names colliding with library \
         internals, redefines imported names, refers to unexported names, and observes library state through several \
         paths (directly, through the prefixed import, through another library). Oracle: reference module system (one \
         instance per library per program, library environment = its imports + its definitions). Non-trivial = a name \
         collision / redefinition is exercised or state is observed through two paths.",
    );
    let cases = ctx.tier.pick(10_000, 40_000);
    ctx.random("pairs", cases, 200, |ch| judge(&gen_case(ch)));
}
