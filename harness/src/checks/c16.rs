//! C16 — printed values read back as the same values.
use crate::checks::c09::with_ns;
use crate::numgrid::NumSession;
use crate::runner::{Chooser, Ctx, Report, Tier, SHARDS};
use crate::sut::{self, guarded, snapshot, Outcome, SNum, SVal};
use ruschm::error::ToLocated;
use ruschm::interpreter::Interpreter;
use ruschm::parser::pair::GenericPair;
use ruschm::parser::{DatumBody, Lexer, Primitive, TokenData};
use ruschm::values::{Number, Value, ValueReference};
use std::sync::atomic::{AtomicU64, Ordering};

fn mk_list(items: Vec<Value<f32>>, tail: Option<Value<f32>>) -> Value<f32> {
    let mut acc = match tail {
        Some(t) => t,
        None => Value::Pair(Box::new(GenericPair::Empty)),
    };
    for it in items.into_iter().rev() {
        acc = Value::Pair(Box::new(GenericPair::Some(it, acc)));
    }
    acc
}

const SYMS: &[&str] = &[
    "a", "b", "foo", "x1", "list->vector", "set!", "+", "-", "...", "<=?", "a.b", "hello-world", "q", "quote", "quote", "lambda", "define",
    // peculiar identifiers (sign or dot first) with digits and signs further on; e and exponents look-alikes
    "->v2", "-x1", "+a1", "--2", "...1", "-a-1", "..2", "e1", "a1e5", "x+1", "-e5", "λ2", "if", "else", "=>", "_", "!x9", "$1", "a/b", "-",
];
const CHARS: &[char] = &[
    'a', 'Z', '0', '(', ')', ';', '"', '\\', '#', ' ', '|', '\'', 'λ', '.', '~', 'x', 't', '\u{0}', '\u{7}', '\u{8}', '\u{1b}', '\u{7f}', '\t', '\n',
];

pub fn interesting_reals() -> Vec<f32> {
    let mut v = vec![
        0.0f32, -0.0, 1.0, -1.0, 0.5, 1.5, 0.1, 0.2, 0.3, 1e10, 1e-7, 1e7, 1e16, 1e-5, 123456.79, 16777216.0, 16777215.0,
        16777218.0, 3.4028235e38, -3.4028235e38, 1.1754944e-38, 1e-45, 1.4e-45, 5e-324f64 as f32, 9.999999e-8, 1e-4, 0.001,
        8388608.0, 8388607.5, 4294967296.0, 2147483648.0, 7.038531e-26, -7.038531e-26, 1.0e23, 9.9e22, 5e-40, 3.1415927,
        2.7182817, 1e38, 1e-38, 65504.0, 0.33333334,
    ];
    for e in -45..=38 {
        let p: f32 = format!("1e{}", e).parse().unwrap();
        v.push(p);
        v.push(f32::from_bits(p.to_bits().wrapping_add(1)));
        v.push(f32::from_bits(p.to_bits().wrapping_sub(1)));
    }
    for e in 0..=254u32 {
        v.push(f32::from_bits(e << 23));
        v.push(f32::from_bits((e << 23) | 0x7fffff));
        v.push(f32::from_bits((e << 23) | 1));
    }
    v.retain(|x| x.is_finite());
    v
}

fn gen_number(ch: &mut Chooser, reals: &[f32]) -> Value<f32> {
    match ch.below(9) {
        0 | 1 => Value::Number(Number::Integer(match ch.below(4) {
            0 => ch.range(-10, 10) as i32,
            1 => *ch.pick(&[i32::MAX, i32::MIN, 0, -1, 65536, 32767, 16777217, 1000000, -999999999]),
            2 => ch.range(i32::MIN as i64, i32::MAX as i64) as i32,
            _ => ch.range(-100000, 100000) as i32,
        })),
        2 | 3 => {
            let a = match ch.below(3) {
                0 => ch.range(-20, 20) as i32,
                1 => *ch.pick(&[i32::MAX, i32::MIN, 1, -1, 0, 65537]),
                _ => ch.range(i32::MIN as i64, i32::MAX as i64) as i32,
            };
            let mut b = match ch.below(3) {
                0 => ch.range(1, 20) as i32,
                1 => *ch.pick(&[i32::MAX, 1, 2, 65536, 3]),
                _ => ch.range(1, i32::MAX as i64) as i32,
            };
            if b == 0 {
                b = 1;
            }
            crate::numgrid::value_of(crate::refnum::ex(a as i128, b as i128)).unwrap_or(Value::Number(Number::Integer(a)))
        }
        4 => with_ns(|_, g| {
            // (the grid also holds infinities and NaN, which are outside the readable subset)
            let v = g[ch.below(g.len())].val.clone();
            match &v {
                Value::Number(Number::Real(x)) if !x.is_finite() => Value::Number(Number::Integer(0)),
                _ => v,
            }
        }),
        5 | 6 => Value::Number(Number::Real(*ch.pick(reals))),
        _ => {
            let x = f32::from_bits(ch.raw());
            Value::Number(Number::Real(if x.is_finite() { x } else { 1.0 }))
        }
    }
}

fn gen_value(ch: &mut Chooser, depth: u32, reals: &[f32]) -> Value<f32> {
    let compound = depth > 0 && ch.chance(2, 5);
    if !compound {
        return match ch.below(10) {
            0 => Value::Boolean(ch.chance(1, 2)),
            1 => Value::Character(*ch.pick(CHARS)),
            2 | 3 => Value::Symbol(ch.pick(SYMS).to_string()),
            4 => Value::Pair(Box::new(GenericPair::Empty)),
            _ => gen_number(ch, reals),
        };
    }
    let n = ch.below(7);
    let items: Vec<Value<f32>> = (0..n).map(|_| gen_value(ch, depth - 1, reals)).collect();
    match ch.below(4) {
        0 => {
            if ch.chance(1, 2) {
                Value::Vector(ValueReference::new_immutable(items))
            } else {
                Value::Vector(ValueReference::new_mutable(items))
            }
        }
        1 if n > 0 => {
            // improper list with an atom or vector tail
            let tail = match ch.below(3) {
                0 => Value::Vector(ValueReference::new_immutable(vec![gen_number(ch, reals)])),
                _ => {
                    let t = gen_value(ch, 0, reals);
                    match t {
                        Value::Pair(_) => Value::Symbol("t".into()),
                        o => o,
                    }
                }
            };
            mk_list(items, Some(tail))
        }
        _ => mk_list(items, None),
    }
}

/// expected composition of the printed text: atoms as the implementation prints them alone, joined by the
/// shape rules of the property (single spaces, dotted tail only when improper, #( ) for vectors)
fn expected_text(v: &Value<f32>) -> String {
    match v {
        Value::Pair(p) => {
            let mut out = String::from("(");
            let mut cur: &GenericPair<Value<f32>> = p.as_ref();
            let mut first = true;
            loop {
                match cur {
                    GenericPair::Empty => break,
                    GenericPair::Some(car, cdr) => {
                        if !first {
                            out.push(' ');
                        }
                        first = false;
                        out.push_str(&expected_text(car));
                        match cdr {
                            Value::Pair(next) => cur = next.as_ref(),
                            other => {
                                out.push_str(" . ");
                                out.push_str(&expected_text(other));
                                break;
                            }
                        }
                    }
                }
            }
            out.push(')');
            out
        }
        Value::Vector(r) => {
            let items: Vec<String> = r.as_ref().iter().map(expected_text).collect();
            format!("#({})", items.join(" "))
        }
        Value::Boolean(true) => "#t".into(),
        Value::Boolean(false) => "#f".into(),
        Value::Symbol(s) => s.clone(),
        Value::Character(c) => format!("#\\{}", c),
        atom => format!("{}", atom),
    }
}

fn has_noncanonical_ratio(v: &SVal) -> Option<&'static str> {
    match v {
        SVal::Num(SNum::Rat(_, b)) if *b < 0 => Some("negden"),
        SVal::Pair(a, d) => has_noncanonical_ratio(a).or(has_noncanonical_ratio(d)),
        SVal::Vector { items, .. } => items.iter().find_map(has_noncanonical_ratio),
        _ => None,
    }
}

fn depth_and_classes(v: &SVal, classes: &mut Vec<u8>) -> u32 {
    match v {
        SVal::Num(SNum::Int(_)) => {
            classes.push(0);
            0
        }
        SVal::Num(SNum::Rat(..)) => {
            classes.push(1);
            0
        }
        SVal::Num(SNum::Real(_)) => {
            classes.push(2);
            0
        }
        SVal::Pair(a, d) => {
            let x = depth_and_classes(a, classes) + 1;
            let y = depth_and_classes(d, classes);
            x.max(y)
        }
        SVal::Vector { items, .. } => 1 + items.iter().map(|i| depth_and_classes(i, classes)).max().unwrap_or(0),
        _ => 0,
    }
}

pub fn judge_value(ns: &NumSession, v: &Value<f32>) -> Report {
    let model = snapshot(v);
    let printed = match guarded(|| format!("{}", v)) {
        Ok(t) => t,
        Err((site, msg)) => {
            let mut rep = Report::new(model.show());
            rep.fail(format!("print-{}", sut::panic_sig(&site, &msg)), "Display panicked");
            return rep;
        }
    };
    let mut rep = Report::new(printed.clone());
    let mut classes = vec![];
    let depth = depth_and_classes(&model, &mut classes);
    classes.sort();
    classes.dedup();
    rep.nontrivial = (depth >= 2 && classes.len() >= 2) || (depth == 0 && printed.contains('e'));
    // shape
    let exp = expected_text(v);
    if exp != printed {
        rep.fail("shape", format!("expected text {:?}, printed {:?}", exp, printed));
    }
    // a self-evaluating atom is also read as the whole source text (nothing before or after it)
    if matches!(&model, SVal::Bool(_) | SVal::Num(_) | SVal::Char(_)) && has_noncanonical_ratio(&model).is_none() {
        match with_fresh_eval(ns, &printed) {
            Outcome::Value(b) if b.equiv(&model) => {}
            other => rep.fail("atom-as-whole-text-differs", format!("value {} printed {:?}; that text alone evaluates to {}", model.show(), printed, other.show())),
        }
    }
    // round trip
    let text = format!("(quote {})", printed);
    let back = with_fresh_eval(ns, &text);
    rep.note = back.show();
    match &back {
        Outcome::Value(b) if b.equiv(&model) => {}
        other => {
            let sig = match has_noncanonical_ratio(&model) {
                Some(k) => format!("roundtrip-noncanonical-ratio:{}", k),
                None => match other {
                    Outcome::Panic { site, msg } => format!("roundtrip-{}", sut::panic_sig(site, msg)),
                    Outcome::Error(e) => format!("roundtrip-error:{}", e.tag),
                    _ => {
                        if depth == 0 {
                            match &model {
                                SVal::Num(SNum::Real(_)) => "roundtrip-real-differs".to_string(),
                                SVal::Num(_) => "roundtrip-exact-differs".to_string(),
                                _ => "roundtrip-atom-differs".to_string(),
                            }
                        } else {
                            "roundtrip-differs".to_string()
                        }
                    }
                },
            };
            rep.fail(sig, format!("value {} printed {:?} read back as {}", model.show(), printed, other.show()));
        }
    }
    rep
}

thread_local! {
    static EVAL: std::cell::RefCell<Option<sut::Session>> = const { std::cell::RefCell::new(None) };
}

fn with_fresh_eval(_ns: &NumSession, text: &str) -> Outcome {
    // a per-thread session that only ever evaluates (quote DATUM) forms, so it never changes state
    EVAL.with(|c| {
        let mut c = c.borrow_mut();
        if c.is_none() {
            *c = Some(sut::Session::stdlib().expect("stdlib"));
        }
        c.as_mut().unwrap().eval(text)
    })
}

/// fast path for reals: Number::to_string -> Lexer -> read_literal (all real code)
pub fn real_roundtrip(x: f32, env: &std::rc::Rc<ruschm::environment::Environment<f32>>) -> Result<(), String> {
    let text = Number::<f32>::Real(x).to_string();
    let mut lx = Lexer::from_char_stream(text.chars());
    let tok = match lx.next() {
        Some(Ok(t)) => t,
        other => return Err(format!("{:?} printed {:?}: lexer gave {:?}", x, text, other.map(|r| r.map(|t| t.data)))),
    };
    if lx.next().is_some() {
        return Err(format!("{:?} printed {:?}: more than one token", x, text));
    }
    let lit = match tok.data {
        TokenData::Primitive(p @ Primitive::Real(_)) => p,
        other => return Err(format!("{:?} printed {:?}: token {:?} is not a real (exactness lost)", x, text, other)),
    };
    let datum = DatumBody::Primitive(lit).no_locate();
    match Interpreter::<f32>::read_literal(&datum, env) {
        Ok(Value::Number(Number::Real(y))) if y.to_bits() == x.to_bits() => Ok(()),
        Ok(other) => Err(format!("{:?} (bits {}) printed {:?} read back as {}", x, x.to_bits(), text, other)),
        Err(e) => Err(format!("{:?} printed {:?}: {}", x, text, e)),
    }
}

fn real_sig(x: f32) -> String {
    // the one value (and its negation) recorded as a double-rounding finding is identified exactly
    format!("real-roundtrip-bits-{}", x.abs().to_bits())
}

pub fn run(ctx: &Ctx) {
    ctx.set_rule(
        "values built directly in Rust (trees of depth <= 5, width <= 6 over booleans, boundary integers, ratios of both \
         signs incl. unreduced ones and the C09 grid, finite reals of every binary32 class, characters, plain symbols, (), \
         proper/improper lists, vectors): Display text -> evaluate (quote TEXT) -> structural comparison (value and \
         exactness), plus the shape clauses (single spaces, dotted tail only when improper) and pairwise injectivity; \
         the display procedure itself is observed on the standard output of the built binary \
         running (display 'V) for batches of such values (half of them bare atoms), each chunk read back and compared; \
         reals additionally through Number::to_string -> Lexer -> read_literal in bulk (thorough: every finite binary32); \
         numbers computed by the interpreter (max min + - * / abs floor floor-quotient floor-remainder exact over the C09 operand generator) print as their read-back prints and are equal? to it; \
         flat structures of 200-700 elements (dotted pairs, two-element lists, vectors of pairs) in one text. \
         Non-trivial = depth >= 2 with >= 2 number classes, or a real printed with an exponent.",
    );
    let reals = interesting_reals();

    // fixed boundary values (every run)
    let fixed: Vec<String> = reals.iter().map(|x| format!("{}", x.to_bits())).collect();
    ctx.texts("boundary-reals", &fixed, |t| {
        let x = f32::from_bits(t.parse::<u32>().unwrap());
        with_ns(|ns, _| {
            let mut rep = judge_value(ns, &Value::Number(Number::Real(x)));
            rep.fails.iter_mut().for_each(|f| {
                if f.sig == "roundtrip-real-differs" {
                    f.sig = real_sig(x);
                }
            });
            rep
        })
    });

    let cases = ctx.tier.pick(50_000, 300_000);
    ctx.random("trees", cases, 200, tree_case);

    // numbers the interpreter computes (not built in Rust): what is printed for them is what is printed for the value
    // read back from that text, and the two are equal?
    let computed = ctx.tier.pick(20_000, 200_000);
    ctx.random("computed-numbers", computed, 12, computed_number_case);
    // long flat structures (several hundred elements, dotted pairs, vectors) in one text
    let longs = ctx.tier.pick(60, 400);
    ctx.random("long-structures", longs, 8, long_structure_case);

    // the display procedure itself, through the built binary
    let batches = ctx.tier.pick(600, 5_000);
    ctx.random("display-procedure", batches, 40, display_procedure_case);

    // bulk reals
    if !ctx.skip_sub("reals-bulk") && ctx.replay.is_none() {
        bulk_reals(ctx);
    } else if let Some(r) = &ctx.replay {
        if r.sub == "reals-bulk" {
            ctx.texts("reals-bulk", &[], |t| {
                let x = f32::from_bits(t.parse::<u32>().unwrap());
                let mut rep = Report::new(format!("{:?} bits {}", x, x.to_bits()));
                let env = with_ns(|ns, _| ns.sess.it.env.clone());
                if let Err(e) = real_roundtrip(x, &env) {
                    rep.fail(real_sig(x), e);
                }
                rep
            });
        }
    }
}

thread_local! {
    static REALS: Vec<f32> = interesting_reals();
}

const SEP: &str = "\n~~rv-sep~~\n";

/// the display *procedure*, observed on the standard output of the built binary running (display 'V) for a batch of values
pub fn computed_number_case(ch: &mut Chooser) -> Report {
    let op = *ch.pick(&["max", "min", "+", "-", "*", "/", "abs", "floor", "floor-quotient", "floor-remainder", "exact"]);
    let arity = match op {
        "abs" | "floor" | "exact" => 1,
        "floor-quotient" | "floor-remainder" => 2,
        _ => 1 + ch.below(3),
    };
    let args: Vec<String> = (0..arity).map(|_| crate::numgrid::random_opnd(ch).text).collect();
    let expr = format!("({} {})", op, args.join(" "));
    let mut rep = Report::new(expr.clone());
    rep.label(format!("op:{}", op));
    let e2 = expr.clone();
    let r: Result<(String, String, String), String> = EVAL.with(|c| {
        let mut c = c.borrow_mut();
        if c.is_none() {
            *c = Some(sut::Session::stdlib().expect("stdlib"));
        }
        let s = c.as_mut().unwrap();
        let t1 = match s.eval_display(&e2) {
            Ok(Some(t)) => t,
            Ok(None) => return Err("no value".to_string()),
            Err(e) => return Err(e),
        };
        let t2 = s.eval_display(&format!("(quote {})", t1)).map(|o| o.unwrap_or_default()).unwrap_or_else(|e| format!("error: {}", e));
        let same = s.eval_display(&format!("(equal? {} (quote {}))", e2, t1)).map(|o| o.unwrap_or_default()).unwrap_or_else(|e| format!("error: {}", e));
        Ok((t1, t2, same))
    });
    match r {
        Err(e) => {
            if e.starts_with("PANIC") {
                rep.fail(e.clone(), "panic");
            } else {
                rep.skipped = Some("operation-raises".into());
            }
        }
        Ok((t1, _, _)) if t1.contains("inf") || t1.contains("NaN") => {
            // (the property is about finite numbers, as in the other sub-checks)
            rep.skipped = Some("non-finite-result".into());
        }
        Ok((t1, t2, same)) => {
            rep.nontrivial = t1.contains('/') || t1.contains('.') || t1.contains('e');
            rep.note = format!("prints {:?}; read back prints {:?}; equal? {}", t1, t2, same);
            // (NaN is not equal? to itself)
            if t1 != t2 && !t1.contains("NaN") {
                rep.fail("computed-number-prints-differently-after-reading-back", format!("{} prints {:?}, which reads back as a value that prints {:?}", expr, t1, t2));
            } else if same != "#t" && !t1.contains("NaN") {
                rep.fail("computed-number-not-equal-to-its-printed-form", format!("{} prints {:?}; (equal? value 'text) is {}", expr, t1, same));
            }
        }
    }
    rep
}

pub fn long_structure_case(ch: &mut Chooser) -> Report {
    let n = 200 + ch.below(500);
    let kind = ch.below(4);
    // built in Rust, printed, read back as one text
    let items: Vec<Value<f32>> = (0..n)
        .map(|i| {
            let k = Value::Number(Number::Integer(i as i32));
            match kind {
                0 => mk_list(vec![Value::Symbol(format!("k{}", i))], Some(k)),
                1 => mk_list(vec![k.clone(), k], None),
                2 => Value::Vector(ValueReference::new_immutable(vec![mk_list(vec![k.clone()], Some(k))])),
                _ => k,
            }
        })
        .collect();
    let v = if ch.chance(1, 2) { mk_list(items, None) } else { Value::Vector(ValueReference::new_immutable(items)) };
    with_ns(|ns, _| {
        let mut rep = judge_value(ns, &v);
        let mut key = rep.key.clone();
        sut::truncate_chars(&mut key, 300);
        rep.key = format!("{} elements of kind {}: {}", n, kind, key);
        rep.nontrivial = true;
        rep
    })
}

pub fn display_procedure_case(ch: &mut Chooser) -> Report {
    let n = 8 + ch.below(25);
    let values: Vec<Value<f32>> = REALS.with(|r| {
        (0..n)
            .map(|_| {
                // a good share of bare atoms: the value handed to display is then not inside any list or vector
                let depth = if ch.chance(1, 2) { 0 } else { 1 + ch.below(3) as u32 };
                gen_value(ch, depth, r)
            })
            .collect()
    });
    let texts: Vec<String> = values.iter().map(|v| format!("{}", v)).collect();
    let mut program = String::from("(import (scheme base) (scheme write))\n");
    for t in &texts {
        program.push_str(&format!("(display (quote {}))\n(display \"{}\")\n", t, SEP.replace('\n', "\\n")));
    }
    let mut rep = Report::new(program.clone());
    rep.nontrivial = true;
    rep.label("display-procedure");
    let dir = std::env::temp_dir().join(format!("rv-c16-{}-{:?}", std::process::id(), std::thread::current().id()));
    let _ = std::fs::create_dir_all(&dir);
    let file = dir.join("values.scm");
    std::fs::write(&file, &program).unwrap();
    let r = crate::checks::c17::run_binary(&[file.to_str().unwrap()], &dir, None);
    let _ = std::fs::remove_dir_all(&dir);
    if r.code != Some(0) {
        // the quoted texts were produced by Display; that they read back is the business of the other sub-checks
        rep.skipped = Some("program-rejected".into());
        rep.note = r.stderr.chars().take(200).collect();
        return rep;
    }
    let chunks: Vec<&str> = r.stdout.split(SEP).collect();
    if chunks.len() != values.len() + 1 {
        rep.fail("display-output-count", format!("{} values displayed, {} chunks of output", values.len(), chunks.len() - 1));
        return rep;
    }
    with_ns(|ns, _| {
        for (v, chunk) in values.iter().zip(chunks.iter()) {
            let model = snapshot(v);
            if has_noncanonical_ratio(&model).is_some() {
                continue;
            }
            let back = with_fresh_eval(ns, &format!("(quote {})", chunk));
            match &back {
                Outcome::Value(b) if b.equiv(&model) => {}
                other => {
                    let mut classes = vec![];
                    let depth = depth_and_classes(&model, &mut classes);
                    rep.fail(
                        if depth == 0 { "display-procedure-atom-differs" } else { "display-procedure-differs" },
                        format!("(display '{}) wrote {:?}, which reads back as {}", model.show(), chunk, other.show()),
                    );
                    break;
                }
            }
        }
    });
    rep
}

pub fn tree_case(ch: &mut Chooser) -> Report {
    REALS.with(|reals2| {
        let reals2: &Vec<f32> = reals2;
        let depth = ch.below(6) as u32;
        let v = gen_value(ch, depth, &reals2);
        with_ns(|ns, _| {
            let mut rep = judge_value(ns, &v);
            if let Value::Number(Number::Real(x)) = &v {
                let x = *x;
                rep.fails.iter_mut().for_each(|f| {
                    if f.sig == "roundtrip-real-differs" {
                        f.sig = real_sig(x);
                    }
                });
            }
            // the same object written twice gives the same text
            let (t1, t2) = (format!("{}", v), format!("{}", v));
            if t1 != t2 {
                rep.fail("display-depends-on-an-earlier-display", format!("the same value printed as {:?} and then as {:?}", t1, t2));
            }
            // injectivity against a second, different value from the same choice stream
            let w = gen_value(ch, depth.min(2), &reals2);
            let (sv, sw) = (snapshot(&v), snapshot(&w));
            if !sv.equiv(&sw) && has_noncanonical_ratio(&sv).is_none() && has_noncanonical_ratio(&sw).is_none() {
                let (tv, tw) = (format!("{}", v), format!("{}", w));
                if tv == tw && !ratio_same_value_modulo_repr(&sv, &sw) {
                    rep.fail("not-injective", format!("{} and {} both print as {:?}", sv.show(), sw.show(), tv));
                }
            }
            rep
        })
    })
}

fn ratio_same_value_modulo_repr(_a: &SVal, _b: &SVal) -> bool {
    false
}

fn bulk_reals(ctx: &Ctx) {
    let sub = "reals-bulk";
    let exhaustive = ctx.tier == Tier::Thorough;
    // quick: 2^21 values spread over the whole bit space with a seed-dependent offset
    let total: u64 = 1 << 32;
    let stride: u64 = if exhaustive { 1 } else { 512 };
    let offset = if exhaustive { 0 } else { ctx.seed.wrapping_mul(0x9e3779b97f4a7c15) % stride };
    let evals = AtomicU64::new(0);
    let nontrivial = AtomicU64::new(0);
    std::thread::scope(|sc| {
        for shard in 0..SHARDS {
            let evals = &evals;
            let nontrivial = &nontrivial;
            sc.spawn(move || {
                let env = with_ns(|ns, _| ns.sess.it.env.clone());
                let lo = total / SHARDS * shard;
                let hi = total / SHARDS * (shard + 1);
                let mut b = lo + offset;
                let (mut n, mut nt) = (0u64, 0u64);
                let mut fails = 0;
                while b < hi {
                    let x = f32::from_bits(b as u32);
                    if x.is_finite() {
                        n += 1;
                        if (b as u32 & 0x7fffff) != 0 {
                            nt += 1;
                        }
                        if let Err(e) = real_roundtrip(x, &env) {
                            let mut rep = Report::new(format!("{:?} bits {}", x, x.to_bits()));
                            rep.fail(real_sig(x), e);
                            fails += 1;
                            if fails < 50 {
                                ctx.bulk_fail(sub, &format!("{}", x.to_bits()), &rep);
                            }
                        }
                    }
                    b += stride;
                }
                evals.fetch_add(n, Ordering::SeqCst);
                nontrivial.fetch_add(nt, Ordering::SeqCst);
            });
        }
    });
    ctx.bulk(
        sub,
        evals.load(Ordering::SeqCst),
        nontrivial.load(Ordering::SeqCst),
        vec![serde_json::json!("every 512th (quick) / every (thorough) finite binary32 bit pattern: to_string -> lexer -> read_literal; non-trivial = mantissa bits not all zero")],
        exhaustive,
    );
}
