//! C18 (b) — REPL sessions through the built binary over a pipe, under several line splittings.
use crate::ast::*;
use crate::checks::c17::{run_binary, scratch, strip_ansi, strip_ticks};
use crate::faults::{fault_form_with, prelude, CONTEXTS, KINDS};
use crate::gen::{Gen, GenCfg};
use crate::runner::{Chooser, Ctx, Report};
use crate::sut::{self, Session};

pub struct SessionCase {
    pub forms: Vec<Form>,
    /// per splitting: per form: the lines submitted for it
    pub splittings: Vec<Vec<Vec<String>>>,
    pub has_fault: bool,
    pub max_lines_after_fault: usize,
    /// join_next[i]: form i and form i+1 are entered as one submission (when neither fails)
    pub join_next: Vec<bool>,
    /// forms i entered in one submission with form i+1 although form i+1 fails (form i is a definition: prints nothing)
    pub force_join: Vec<usize>,
    /// forms whose printed value is known by construction (uses of a macro defined by an earlier submission): the
    /// in-process reference evaluates every form through a separate call too, so it cannot vouch for these
    pub known_values: Vec<(usize, String)>,
}

fn special_forms(ch: &mut Chooser) -> Form {
    // strings, characters and |identifiers| containing parentheses and semicolons
    let q = |d: Datum| Expr::Quote(d);
    // forms whose value is unspecified (nothing is printed), and a stray closing parenthesis (opens nothing:
    // submitted at once, reported as an error, and the session goes on)
    match ch.below(16) {
        // values whose printed text is empty, ends in a line break, or holds a carriage return + line feed
        12 => return Form::Raw("\"\"".into()),
        13 => return Form::Raw(ch.pick_s(&["\"end\\n\"", "\"\\n\"", "(list \"two\\n\\n\" 1)"]).to_string()),
        14 => return Form::Raw(ch.pick_s(&["\"a\\r\\nb\"", "\"cr\\r\""]).to_string()),
        // complete submissions that the parser rejects for a missing operand
        15 => return Form::Raw(ch.pick_s(&["(if)", "(define y)", "(lambda)", "(quote)", "(set! wn)", "(define)"]).to_string()),
        6 => return Form::Expr(Expr::Set("wn".into(), Box::new(Expr::Int(5)))),
        7 => return Form::Expr(app("vector-set!", vec![var("wv"), Expr::Int(1), Expr::Quote(Datum::Sym("x".into()))])),
        8 => return Form::Expr(Expr::If(Box::new(Expr::Bool(false)), Box::new(Expr::Bool(false)), None)),
        9 => return Form::Expr(app("for-each", vec![var("car"), Expr::Quote(Datum::List(vec![], None))])),
        10 => return Form::Raw(")".into()),
        11 => return Form::Raw("(car '(1 2)))".into()),
        _ => {}
    }
    Form::Expr(match ch.below(11) {
        // character literals whose character is a blank: the blank may be the last character of an input line
        6 => app("list", vec![Expr::Char(' '), Expr::Char('a'), Expr::Char(' ')]),
        7 => Expr::Char(if ch.chance(1, 2) { ' ' } else { '\t' }),
        8 => app("vector", vec![Expr::Char('\t'), Expr::Int(2), Expr::Char(' '), Expr::Str("a ".into())]),
        // a string literal that continues on the next input line while a list is open
        9 => app("list", vec![Expr::RawStr("first line\nsecond (line".into()), Expr::Int(1)]),
        10 => app("vector", vec![Expr::Int(0), Expr::RawStr("a\n\nb) ; not a comment\n".into())]),
        0 => app("list", vec![Expr::Str("(".into()), Expr::Str(")".into()), Expr::Int(1)]),
        1 => app("list", vec![Expr::Char('('), Expr::Char(')'), Expr::Char(';')]),
        2 => app("list", vec![Expr::Str("a;b".into()), Expr::Str("x ; y (".into())]),
        3 => q(Datum::List(vec![Datum::Sym("|(|".into()), Datum::Sym("|a;b|".into()), Datum::Int(2)], None)),
        4 => Expr::Str("\")(\"".into()),
        _ => app("cons", vec![Expr::Str("((".into()), q(Datum::List(vec![], None))]),
    })
}

/// lines for one form: breaks only between tokens that are inside a list (depth >= 1)
fn split_form(ch: &mut Chooser, f: &Form, mode: usize) -> Vec<String> {
    let toks = form_tokens(f);
    if mode == 0 {
        return vec![join(&toks)];
    }
    let mut lines: Vec<String> = vec![];
    let mut cur: Vec<Tok> = vec![];
    let mut depth = 0i32;
    for (i, t) in toks.iter().enumerate() {
        cur.push(t.clone());
        if t.text == "(" || t.text == "#(" {
            depth += 1;
        } else if t.text == ")" {
            depth -= 1;
        }
        let last = i + 1 == toks.len();
        // never break right after a quote mark (the datum must follow it in the same token run)
        let can_break = depth >= 1 && !last && t.text != "'";
        let want = match mode {
            1 => ch.chance(1, 3),
            2 => true,
            _ => ch.chance(1, 3),
        };
        if can_break && want {
            let mut line = join(&cur);
            if mode == 3 && ch.chance(1, 2) {
                line.push_str(" ; comment ) (");
            }
            if mode == 1 && ch.chance(1, 4) {
                line = format!("   {}", line);
            }
            lines.push(line);
            cur.clear();
        }
    }
    if !cur.is_empty() {
        lines.push(join(&cur));
    }
    lines
}

pub fn gen_session(ch: &mut Chooser) -> SessionCase {
    let mut forms = strip_ticks(&prelude());
    let mut cfg = if ch.chance(1, 2) { GenCfg::core(2) } else { GenCfg::derived(2) };
    cfg.ticks = false;
    cfg.avoid.template_capture = true;
    cfg.printable_exprs = true;
    cfg.max_forms = 6;
    let valid = {
        let mut g = Gen::new(ch, cfg);
        g.gen_program()
    };
    let mut body = valid;
    // a counter, and definitions whose initialiser has an effect: evaluating a submission twice, or keeping it in the
    // input buffer, shows in the values that follow
    forms.push(Form::Define(Def { name: "nx".into(), value: Expr::Int(0), sugar: false }));
    forms.push(Form::Define(Def {
        name: "next!".into(),
        value: Expr::Lambda(
            Formals { fixed: vec![], rest: None },
            Box::new(Body { defs: vec![], exprs: vec![Expr::Set("nx".into(), Box::new(app("+", vec![var("nx"), Expr::Int(1)]))), var("nx")] }),
        ),
        sugar: true,
    }));
    for k in 0..ch.below(3) {
        let pos = ch.below(body.len() + 1);
        body.insert(pos, Form::Define(Def { name: format!("eff{}", k), value: app("next!", vec![]), sugar: false }));
    }
    for _ in 0..1 + ch.below(4) {
        let pos = ch.below(body.len() + 1);
        body.insert(pos, special_forms(ch));
    }
    let mut has_fault = false;
    let mut fault_pos = None;
    if ch.chance(3, 5) {
        let kind = *ch.pick(&KINDS);
        let context = *ch.pick(&CONTEXTS);
        let derived = ch.chance(1, 2);
        let ff = fault_form_with(ch, kind, context, derived);
        let pos = ch.below(body.len() + 1);
        body.insert(pos, strip_ticks(&[ff.form])[0].clone());
        has_fault = true;
        fault_pos = Some(forms.len() + pos);
    }
    forms.extend(body);
    // a macro defined in one submission and used in later ones
    let mut force_join = vec![];
    let mut known_values: Vec<(usize, String)> = vec![];
    if ch.chance(1, 2) {
        forms.push(Form::Raw("(define-syntax my-inc (syntax-rules () ((my-inc e) (+ e 1))))".into()));
        forms.push(Form::Expr(Expr::Int(7)));
        known_values.push((forms.len(), "42".to_string()));
        forms.push(Form::Raw("(my-inc 41)".into()));
        known_values.push((forms.len(), "(2 3)".to_string()));
        forms.push(Form::Raw("(list (my-inc 1) (my-inc (my-inc 1)))".into()));
    }
    // two procedures written alike in different submissions: what eqv? says about them does not depend on where the
    // lines of their definitions were broken
    if ch.chance(1, 2) {
        let idl = || Expr::Lambda(Formals { fixed: vec!["x".into(), "y".into()], rest: None }, body1(app("list", vec![var("y"), var("x")])));
        forms.push(Form::Define(Def { name: "same-a".into(), value: idl(), sugar: false }));
        forms.push(Form::Define(Def { name: "same-b".into(), value: idl(), sugar: false }));
        forms.push(Form::Expr(app("list", vec![app("eqv?", vec![var("same-a"), var("same-b")]), app("eqv?", vec![var("same-a"), var("same-a")]), app("same-b", vec![Expr::Int(1), Expr::Int(2)])])));
    }
    // an import declaration that comes too late (after definitions) is an error wherever it is entered, and binds nothing:
    // the program's own caddr stays
    if ch.chance(1, 2) {
        forms.push(Form::Raw("(define (caddr x) 'mine)".into()));
        forms.push(Form::Raw("(import (only (scheme base) caddr))".into()));
        known_values.push((forms.len(), "mine".to_string()));
        forms.push(Form::Raw("(caddr '(1 2 3))".into()));
    }
    // a definition and, in the same submission, a form that is not lexically well formed: the definition has been made
    if ch.chance(1, 2) {
        force_join.push(forms.len());
        forms.push(Form::Define(Def { name: "lx".into(), value: app("next!", vec![]), sugar: false }));
        forms.push(Form::Raw(ch.pick_s(&["12345678901", "#z", "(display 1/0)", "(list 1 2.3.4)"]).to_string()));
        forms.push(Form::Expr(app("list", vec![var("lx"), var("nx")])));
    }
    // a value followed by an effectful definition, usually entered as one submission (which then prints nothing)
    let pair_at = forms.len();
    forms.push(Form::Expr(Expr::Int(41)));
    forms.push(Form::Define(Def { name: "zq".into(), value: app("next!", vec![]), sugar: false }));
    forms.push(Form::Expr(app("list", vec![var("zq"), var("nx")])));
    // something observable after everything else: definitions survive errors
    forms.push(Form::Expr(app("list", vec![var("wn"), var("five"), app("two", vec![Expr::Int(1), Expr::Int(2)])])));
    let mut splittings = vec![];
    let mut max_lines_after_fault = 0;
    for mode in 0..4 {
        let per_form: Vec<Vec<String>> = forms.iter().map(|f| split_form(ch, f, mode)).collect();
        if let Some(fp) = fault_pos {
            for lines in per_form.iter().skip(fp + 1) {
                max_lines_after_fault = max_lines_after_fault.max(lines.len());
            }
        }
        splittings.push(per_form);
    }
    let mut join_next: Vec<bool> = (0..forms.len()).map(|_| ch.chance(1, 5)).collect();
    join_next[pair_at] = ch.chance(2, 3);
    if join_next[pair_at] && pair_at > 0 {
        join_next[pair_at - 1] = false;
    }
    SessionCase { forms, splittings, has_fault, max_lines_after_fault, join_next, force_join, known_values }
}

fn banner() -> String {
    // CARGO_PKG_VERSION of the repository
    let toml = std::fs::read_to_string("/repo/Cargo.toml").unwrap_or_default();
    let v = toml.lines().find(|l| l.starts_with("version")).and_then(|l| l.split('"').nth(1)).unwrap_or("?").to_string();
    format!("Ruschm Version {}", v)
}

pub fn judge(c: &SessionCase) -> Report {
    let one_line: Vec<String> = c.forms.iter().map(render_form).collect();
    let mut rep = Report::new(one_line.join("\n"));
    rep.label(if c.has_fault { "with-fault" } else { "no-fault" });
    rep.nontrivial = c.has_fault && c.max_lines_after_fault >= 3;
    // in-process reference: the same forms one after another on one interpreter
    let texts = one_line.clone();
    let mut reference: Vec<Result<Option<String>, String>> = sut::in_thread(move || {
        let mut s = Session::stdlib().unwrap();
        texts.iter().map(|t| s.eval_display(t)).collect()
    });
    for (i, v) in &c.known_values {
        reference[*i] = Ok(Some(v.clone()));
    }
    // submissions: a form joined with its successor (both succeeding) is one submission, which prints the value of
    // its last form only
    let mut joined = vec![false; c.forms.len()];
    {
        let mut i = 0;
        while i + 1 < c.forms.len() {
            if c.force_join.contains(&i) && reference[i].is_ok() {
                joined[i] = true;
                i += 2;
                continue;
            }
            if c.join_next[i] && reference[i].is_ok() && reference[i + 1].is_ok() && !matches!(c.forms[i], Form::Raw(_)) && !matches!(c.forms[i + 1], Form::Raw(_)) {
                joined[i] = true;
                i += 2;
            } else {
                i += 1;
            }
        }
    }
    if joined.iter().any(|j| *j) {
        rep.label("multi-form-submission");
    }
    let mut exp_out = vec![banner()];
    let mut exp_err = vec![];
    for (i, r) in reference.iter().enumerate() {
        if joined[i] {
            continue; // not the last form of its submission
        }
        match r {
            Ok(Some(v)) => exp_out.push(v.clone()),
            Ok(None) => {}
            Err(e) => exp_err.push(e.clone()),
        }
    }
    exp_out.push("exited. have a nice day.".to_string());
    // byte for byte: every printed value is followed by exactly one line break
    let exp_raw: String = exp_out.iter().map(|v| format!("{}\n", v)).collect();
    // values may print over several lines
    let exp_out: Vec<String> = exp_out.join("\n").lines().map(|l| l.to_string()).collect();
    let dir = scratch("c18");
    let mut first: Option<(Vec<String>, Vec<String>)> = None;
    for (si, split) in c.splittings.iter().enumerate() {
        let mut input = String::new();
        for (fi, lines) in split.iter().enumerate() {
            for (li, l) in lines.iter().enumerate() {
                input.push_str(l);
                // the last line of a joined form continues with the first line of the next form
                if joined[fi] && li + 1 == lines.len() {
                    input.push(' ');
                } else {
                    input.push('\n');
                }
            }
        }
        let r = run_binary(&[], &dir, Some(&input));
        let out: Vec<String> = r.stdout.lines().map(|l| l.to_string()).collect();
        let err: Vec<String> = strip_ansi(&r.stderr).lines().filter(|l| !l.trim().is_empty()).map(|l| l.to_string()).collect();
        if si == 0 {
            rep.note = format!("stdout {:?} stderr {:?}", out, err);
            if rep.note.len() > 700 {
                crate::sut::truncate_chars(&mut rep.note, 700);
            }
        }
        if err.iter().any(|l| l.contains("panicked at")) {
            rep.fail("repl-panicked", format!("splitting {}: {:?}", si, err));
            break;
        }
        if out != exp_out {
            rep.fail(
                if si == 0 { "transcript-differs-from-in-process-evaluation" } else { "transcript-depends-on-line-splitting" },
                format!("splitting {} (input {:?}): expected stdout {:?}, got {:?}", si, input, exp_out, out),
            );
            break;
        }
        if r.stdout != exp_raw {
            rep.fail(
                "transcript-bytes-differ-from-in-process-evaluation",
                format!("splitting {} (input {:?}): expected stdout {:?}, got {:?}", si, input, exp_raw, r.stdout),
            );
            break;
        }
        if err != exp_err {
            rep.fail(
                if si == 0 { "error-messages-differ-from-in-process-evaluation" } else { "error-messages-depend-on-line-splitting" },
                format!("splitting {}: expected stderr {:?}, got {:?}", si, exp_err, err),
            );
            break;
        }
        match &first {
            None => first = Some((out, err)),
            Some((o0, e0)) => {
                if *o0 != out || *e0 != err {
                    rep.fail("transcript-depends-on-line-splitting", format!("splitting {} differs from splitting 0", si));
                    break;
                }
            }
        }
    }
    let _ = std::fs::remove_dir_all(&dir);
    rep
}

/// one-line forms with unusual token spellings: whenever the interpreter itself accepts the text as one complete form
/// with a value (evaluated in-process), the REPL must evaluate it when the line is entered and go on with the next line
const EXOTIC: &[&str] = &[
    "(quote |a\\|b|)",
    "(list (quote |x\\|y|) 1)",
    "(quote |a\\x41;b|)",
    "(list \"a\\\"b\" 1)",
    "(list \"a\\\\\" 2)",
    "(list #\\\" 3)",
    "(list #\\| 4)",
    "(list #\\( 5)",
    "(quote (|a b| . |c;d|))",
    "(list \"x\\x41;y\" 6)",
    "(vector #\\; 7)",
    "(list 'a'b '(c)'d)",
    "(list \"a\"\"b\")",
    "(quote #(1 #(2) \"#(\"))",
    "(list #t#f)",
    "(list 1.5e2 -.5 +.5 1/2)",
];

fn exotic_case(text: &str) -> Report {
    let mut rep = Report::new(text.to_string());
    let t = text.to_string();
    let reference = sut::in_thread(move || {
        let mut s = Session::stdlib().unwrap();
        s.eval_display(&t)
    });
    let value = match reference {
        Ok(Some(v)) if !v.contains('\n') => v,
        other => {
            rep.skipped = Some("not-a-complete-form-with-a-value-for-this-interpreter".into());
            rep.note = format!("{:?}", other);
            return rep;
        }
    };
    rep.nontrivial = true;
    let dir = scratch("c18x");
    let input = format!("{}\n(quote done)\n", text);
    let r = run_binary(&[], &dir, Some(&input));
    let _ = std::fs::remove_dir_all(&dir);
    let expected = format!("{}\n{}\ndone\nexited. have a nice day.\n", banner(), value);
    rep.note = format!("stdout {:?}", r.stdout);
    if r.stdout != expected {
        rep.fail("complete-form-not-evaluated-when-entered", format!("in-process the text evaluates to {}; the REPL wrote {:?} (stderr {:?})", value, r.stdout, strip_ansi(&r.stderr)));
    }
    rep
}

pub fn run(ctx: &Ctx) {
    if !ctx.skip_sub("exotic-forms") {
        let texts: Vec<String> = EXOTIC.iter().map(|s| s.to_string()).collect();
        ctx.texts("exotic-forms", &texts, |t| exotic_case(t));
    }
    if ctx.skip_sub("sessions") {
        return;
    }
    let cases = ctx.tier.pick(600, 5_000);
    ctx.random("sessions", cases, 500, |ch| judge(&gen_session(ch)));
}
