//! C18 (b) — REPL sessions through the built binary (filled in once the reference evaluator exists).
use crate::runner::Ctx;

pub fn run(_ctx: &Ctx) {}
