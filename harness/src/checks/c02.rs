//! C02 — tail calls run in bounded space.
use crate::runner::{Ctx, Report};
use crate::sut::{self, Outcome, SVal, Session};

pub const CONTEXTS: [&str; 23] = [
    "body-last", "if-then", "if-else", "begin", "let", "let*", "cond-clause", "cond-else", "cond=>", "case-clause", "case-else", "and", "or",
    "when", "unless", "apply", "apply-apply", "apply-renamed", "apply-prefixed", "if-variable-test", "if-non-boolean-test", "when-variable-test", "and-variable-test",
];
pub const SHAPES: [&str; 6] = ["self", "mutual-2", "mutual-3", "through-parameter", "variadic", "closure-returned"];
pub const SHAPES_ALL: [&str; 25] = [
    "self", "mutual-2", "mutual-3", "through-parameter", "variadic", "closure-returned", "internal-definition", "fresh-closure-per-iteration", "apply-as-parameter",
    "body-with-internal-variable", "body-with-internal-procedure", "through-forwarder", "forwarder-cycle", "operator-is-a-conditional", "operator-is-and-or", "operator-with-an-effect", "let*-bound-procedure", "when-with-several-forms", "closure-over-the-loop-frame", "no-operands-self", "no-operands-mutual",
    "variadic-empty-rest", "variadic-rest-dropped-after-first-call", "variadic-args-only", "variadic-mutual-with-fixed",
];

/// put `x` (an expression in tail position) into the tail position of the given context
pub fn wrap(ctx: &str, x: &str) -> String {
    match ctx {
        "body-last" => x.to_string(),
        "if-then" => format!("(if #t {} 0)", x),
        "if-else" => format!("(if #f 0 {})", x),
        "begin" => format!("(begin 0 {})", x),
        "let" => format!("(let ((t1 1)) {})", x),
        "let*" => format!("(let* ((t1 1) (t2 t1)) {})", x),
        "cond-clause" => format!("(cond (#f 0) (#t {}))", x),
        "cond-else" => format!("(cond (#f 0) (else {}))", x),
        "cond=>" => format!("(cond (1 => (lambda (v) {})))", x),
        "case-clause" => format!("(case 1 ((0) 0) ((1 2) {}))", x),
        "case-else" => format!("(case 3 ((1 2) 0) (else {}))", x),
        "and" => format!("(and #t 1 {})", x),
        "or" => format!("(or #f {})", x),
        "when" => format!("(when #t 0 {})", x),
        "unless" => format!("(unless #f 0 {})", x),
        // the test is a variable holding a true value / an expression whose true value is not #t
        "if-variable-test" => format!("(if truth {} 0)", x),
        "if-non-boolean-test" => format!("(if (memv 2 '(1 2 3)) {} 0)", x),
        "when-variable-test" => format!("(when one 0 {})", x),
        "and-variable-test" => format!("(and truth one {})", x),
        "apply" => format!("(apply (lambda () {}) '())", x),
        "apply-apply" => format!("(apply apply (lambda () {}) '(()))", x),
        "apply-renamed" => format!("(funcall (lambda () {}) '())", x),
        "apply-prefixed" => format!("(p:apply (lambda () {}) '())", x),
        _ => unreachable!(),
    }
}

pub fn wrap_all(ctxs: &[&str], call: &str) -> String {
    let mut cur = call.to_string();
    for c in ctxs.iter().rev() {
        cur = wrap(c, &cur);
    }
    cur
}

/// apply is also known to the program under two other names
const IMPORTS: &str = "(import (rename (only (scheme base) apply) (apply funcall)) (prefix (only (scheme base) apply) p:))";
const STEP: &str = "(define (step acc i) (floor-remainder (+ (* acc 3) i) 1009))";
const TRUTHS: &str = "(define truth #t) (define one 1)";

/// program text for a loop of the given shape whose recursive call sits in the given tail contexts
pub fn program(shape: &str, ctxs: &[&str], n: u32) -> Vec<String> {
    let w = |call: &str| wrap_all(ctxs, call);
    let mut forms = vec![IMPORTS.to_string(), format!("{} {}", STEP, TRUTHS)];
    match shape {
        "self" => {
            forms.push(format!("(define (loop i acc) (probe i) (if (= i 0) acc {}))", w("(loop (- i 1) (step acc i))")));
            forms.push(format!("(loop {} 1)", n));
        }
        "mutual-2" => {
            forms.push(format!("(define (loop-a i acc) (probe i) (if (= i 0) acc {}))", w("(loop-b (- i 1) (step acc i))")));
            forms.push(format!("(define (loop-b i acc) (probe i) (if (= i 0) acc {}))", w("(loop-a (- i 1) (step acc i))")));
            forms.push(format!("(loop-a {} 1)", n));
        }
        "mutual-3" => {
            forms.push(format!("(define (loop-a i acc) (probe i) (if (= i 0) acc {}))", w("(loop-b (- i 1) (step acc i))")));
            forms.push(format!("(define (loop-b i acc) (probe i) (if (= i 0) acc {}))", w("(loop-c (- i 1) (step acc i))")));
            forms.push(format!("(define (loop-c i acc) (probe i) (if (= i 0) acc {}))", w("(loop-a (- i 1) (step acc i))")));
            forms.push(format!("(loop-a {} 1)", n));
        }
        "through-parameter" => {
            forms.push(format!("(define (loop f i acc) (probe i) (if (= i 0) acc {}))", w("(f f (- i 1) (step acc i))")));
            forms.push(format!("(loop loop {} 1)", n));
        }
        "variadic" => {
            // the accumulator travels in the rest parameter and is re-spread
            forms.push(format!("(define (loop i . rest) (probe i) (if (= i 0) (car rest) {}))", w("(loop (- i 1) (step (car rest) i) 0)")));
            forms.push(format!("(loop {} 1 0)", n));
        }
        "variadic-empty-rest" => {
            // fixed parameters plus a rest parameter that every call leaves empty
            forms.push(format!("(define (loop i acc . extras) (probe i) (if (= i 0) (if (null? extras) acc -1) {}))", w("(loop (- i 1) (step acc i))")));
            forms.push(format!("(loop {} 1)", n));
        }
        "variadic-rest-dropped-after-first-call" => {
            // the first call passes extra arguments, the recursive ones only the fixed ones
            forms.push(format!("(define (loop i acc . extras) (probe i) (if (= i 0) (if (null? extras) acc -1) {}))", w("(loop (- i 1) (step acc i))")));
            forms.push(format!("(loop {} 1 'x 'y)", n));
        }
        "variadic-args-only" => {
            // (lambda args ...): everything travels in the rest list
            forms.push(format!(
                "(define (loop . args) (probe (car args)) (if (= (car args) 0) (cadr args) {}))",
                w("(loop (- (car args) 1) (step (cadr args) (car args)))")
            ));
            forms.push(format!("(loop {} 1)", n));
        }
        "variadic-mutual-with-fixed" => {
            // a variadic and a fixed-arity procedure call each other; the variadic one gets an empty / a one-element rest list in turn
            forms.push(format!("(define (loop-a i acc . extras) (probe i) (if (= i 0) acc {}))", w("(loop-b (- i 1) (step acc i))")));
            forms.push(format!(
                "(define (loop-b i acc) (probe i) (if (= i 0) acc {}))",
                w("(if (= 0 (floor-remainder i 2)) (loop-a (- i 1) (step acc i)) (loop-a (- i 1) (step acc i) i))")
            ));
            forms.push(format!("(loop-a {} 1)", n));
        }
        "closure-returned" => {
            forms.push(format!("(define (make-loop) (lambda (self i acc) (probe i) (if (= i 0) acc {})))", w("(self self (- i 1) (step acc i))")));
            forms.push("(define the-loop (make-loop))".to_string());
            forms.push(format!("(the-loop the-loop {} 1)", n));
        }
        "fresh-closure-per-iteration" => {
            // every iteration tail-calls a new closure of the same lambda with a different captured binding
            forms.push(format!(
                "(define (make-step k) (lambda (i acc) (probe i) (if (= i 0) (+ (* acc 10000) k) {})))",
                w("((make-step (+ k 1)) (- i 1) (step acc i))")
            ));
            forms.push(format!("((make-step 0) {} 1)", n));
        }
        "apply-as-parameter" => {
            // (op op loop (list op a (list b))) with op = apply is (loop apply a b): a tail call all the way
            forms.push(format!("(define (loop op i acc) (probe i) (if (= i 0) acc {}))", w("(op op loop (list op (- i 1) (list (step acc i))))")));
            forms.push(format!("(loop apply {} 1)", n));
        }
        "body-with-internal-variable" => {
            // the looping procedure itself has internal definitions before its tail call
            forms.push(format!("(define (loop i acc) (define next (- i 1)) (define s (step acc i)) (probe i) (if (= i 0) acc {}))", w("(loop next s)")));
            forms.push(format!("(loop {} 1)", n));
        }
        "body-with-internal-procedure" => {
            // ... one of them a procedure (a closure over the frame that also holds it)
            forms.push(format!(
                "(define (loop i acc) (define next (- i 1)) (define (bump a) (step a i)) (probe i) (if (= i 0) acc {}))",
                w("(loop next (bump acc))")
            ));
            forms.push(format!("(loop {} 1)", n));
        }
        "operator-is-a-conditional" => {
            // the operator of the tail call is itself an if / cond expression choosing between two looping procedures
            forms.push(format!(
                "(define (loop-a i acc) (probe i) (if (= i 0) acc {}))",
                w("((if (= 0 (floor-remainder i 2)) loop-b loop-a) (- i 1) (step acc i))")
            ));
            forms.push(format!(
                "(define (loop-b i acc) (probe i) (if (= i 0) acc {}))",
                w("((cond ((= 0 (floor-remainder i 3)) loop-a) (else loop-b)) (- i 1) (step acc i))")
            ));
            forms.push(format!("(loop-a {} 1)", n));
        }
        "operator-is-and-or" => {
            forms.push(format!("(define (loop i acc) (probe i) (if (= i 0) acc {}))", w("((or #f (and #t loop)) (- i 1) (step acc i))")));
            forms.push(format!("(loop {} 1)", n));
        }
        "operator-with-an-effect" => {
            // the operator expression counts how often it is evaluated: once per iteration
            forms.push("(define calls 0)".to_string());
            forms.push("(define (next-step) (set! calls (+ calls 1)) loop)".to_string());
            forms.push(format!("(define (loop i acc) (probe i) (if (= i 0) (+ (* acc 10000) (floor-remainder calls 10000)) {}))", w("((next-step) (- i 1) (step acc i))")));
            forms.push(format!("(loop {} 1)", n));
        }
        "let*-bound-procedure" => {
            // every iteration binds a procedure with let* (and let): nothing of an iteration may stay alive
            forms.push(format!(
                "(define (loop i acc) (probe i) (let* ((k (- i 1)) (f (lambda (a) (step a i))) (g (lambda (a) (f a)))) (let ((h (lambda (a) (g a)))) (if (= i 0) acc {}))))",
                w("(loop k (h acc))")
            ));
            forms.push(format!("(loop {} 1)", n));
        }
        "when-with-several-forms" => {
            // the tail call is the last of several body forms of when / unless
            forms.push(format!("(define (loop-a i acc) (probe i) (if (= i 0) acc (when #t 0 1 {})))", w("(loop-b (- i 1) (step acc i))")));
            forms.push(format!("(define (loop-b i acc) (probe i) (if (= i 0) acc (unless #f 0 {})))", w("(loop-a (- i 1) (step acc i))")));
            forms.push(format!("(loop-a {} 1)", n));
        }
        "closure-over-the-loop-frame" => {
            // every iteration makes one closure over its own frame and stores it in a global (the previous one is dropped);
            // the closure stored by the last but one iteration is called at the end and must still see that iteration's i
            forms.push("(define kept (lambda () 0))".to_string());
            forms.push("(define (keep! c) (set! kept c) 0)".to_string());
            forms.push(format!(
                "(define (loop i acc z) (probe i) (if (= i 0) (+ (* acc 100) (kept)) {}))",
                w("(loop (- i 1) (step acc i) (keep! (lambda () (+ i 10))))")
            ));
            forms.push(format!("(loop {} 1 0)", n));
        }
        "no-operands-self" => {
            // the loop passes nothing: its state lives in two globals that a helper advances
            forms.push(format!("(define cnt {})", n));
            forms.push("(define total 1)".to_string());
            forms.push("(define (advance!) (set! total (step total cnt)) (set! cnt (- cnt 1)))".to_string());
            forms.push(format!("(define (loop) (probe cnt) (if (= cnt 0) total (begin (advance!) {})))", w("(loop)")));
            forms.push("(loop)".to_string());
        }
        "no-operands-mutual" => {
            forms.push(format!("(define cnt {})", n));
            forms.push("(define total 1)".to_string());
            forms.push("(define (advance!) (set! total (step total cnt)) (set! cnt (- cnt 1)))".to_string());
            forms.push(format!("(define (ping) (probe cnt) (if (= cnt 0) total (begin (advance!) {})))", w("(pong)")));
            forms.push(format!("(define (pong) (probe cnt) (if (= cnt 0) total (let ((unused (advance!))) {})))", w("(ping)")));
            forms.push("(ping)".to_string());
        }
        "through-forwarder" => {
            // the tail call goes through a procedure whose whole body is (apply f args)
            forms.push("(define (forward f . args) (apply f args))".to_string());
            forms.push(format!("(define (loop i acc) (probe i) (if (= i 0) acc {}))", w("(forward loop (- i 1) (step acc i))")));
            forms.push(format!("(loop {} 1)", n));
        }
        "forwarder-cycle" => {
            // three procedures on the cycle, two of them one-call bodies (a builtin applied to variables only)
            forms.push("(define (dispatch f a b) (apply f a b))".to_string());
            forms.push("(define (again i acc) (loop i acc))".to_string());
            forms.push(format!("(define (loop i acc) (probe i) (if (= i 0) acc {}))", w("(dispatch again (- i 1) (list (step acc i)))")));
            forms.push(format!("(loop {} 1)", n));
        }
        "internal-definition" => {
            forms.push(format!("(define (run n) (define (iter i acc) (probe i) (if (= i 0) acc {})) (iter n 1))", w("(iter (- i 1) (step acc i))")));
            forms.push(format!("(run {})", n));
        }
        _ => unreachable!(),
    }
    forms
}

pub fn closed_form(n: u32) -> i32 {
    let mut acc: i64 = 1;
    let mut i = n as i64;
    while i != 0 {
        acc = (acc * 3 + i).rem_euclid(1009);
        i -= 1;
    }
    acc as i32
}

pub struct Measured {
    pub outcome: Outcome,
    pub probes: Vec<(usize, isize)>,
}

pub fn measure(forms: Vec<String>, n: u32) -> Measured {
    // a very large stack: a call that is not eliminated must show up as growth, not as a crash
    let h = std::thread::Builder::new()
        .stack_size(3usize << 30)
        .spawn(move || {
            let mut s = Session::stdlib().unwrap().with_host();
            let mut last = Outcome::NoValue;
            let k = forms.len();
            for (i, f) in forms.iter().enumerate() {
                if i + 1 == k {
                    sut::probes_reserve(n as usize + 8);
                }
                last = s.eval(f);
                if matches!(last, Outcome::Error(_) | Outcome::Panic { .. }) {
                    break;
                }
            }
            Measured { outcome: last, probes: sut::probes_take() }
        })
        .unwrap();
    h.join().unwrap_or_else(|_| std::process::exit(2))
}

pub fn judge(shape: &str, ctxs: &[&str], n: u32) -> Report {
    let forms = program(shape, ctxs, n);
    let mut rep = Report::new(format!("N={} {}", n, forms[2..].join(" ")));
    rep.label(format!("shape:{}", shape));
    for c in ctxs {
        rep.label(format!("context:{}", c));
    }
    rep.nontrivial = ctxs.len() >= 2 || shape != "self";
    let m = measure(forms, n);
    let ctx_name = ctxs.join("+");
    let tag = if ctxs.iter().any(|c| c.starts_with("apply")) { "tail-context:apply".to_string() } else { format!("{}:{}", shape, ctx_name) };
    let expected = match shape {
        "fresh-closure-per-iteration" => closed_form(n) * 10000 + n as i32,
        "operator-with-an-effect" => closed_form(n) * 10000 + (n % 10000) as i32,
        "closure-over-the-loop-frame" => closed_form(n) * 100 + 11,
        _ => closed_form(n),
    };
    match &m.outcome {
        Outcome::Value(SVal::Num(crate::sut::SNum::Int(v))) if *v == expected => {}
        Outcome::Panic { site, msg } => {
            rep.fail(sut::panic_sig(site, msg), "the loop panicked");
            return rep;
        }
        other => {
            rep.fail(format!("loop-result-wrong:{}", tag), format!("expected {}, got {}", expected, other.show()));
            return rep;
        }
    }
    let p = &m.probes;
    if p.len() != n as usize + 1 {
        rep.fail(format!("probe-count:{}", tag), format!("{} probes for {} iterations", p.len(), n + 1));
        return rep;
    }
    // stack: depth = (address at the first probe) - (address now); growth between the early and the late part
    let base = p[0].0 as i64;
    let depth = |k: usize| base - p[k].0 as i64;
    let early = (0..=(n as usize / 8).max(1)).map(depth).max().unwrap_or(0);
    let late = ((n as usize / 2)..=n as usize).map(depth).max().unwrap_or(0);
    let growth = late - early;
    let heap_growth = p[n as usize].1 - p[n as usize / 2].1;
    rep.note = format!("stack growth between first eighth and second half: {} B; live heap growth over the second half: {} B", growth, heap_growth);
    if n >= 1000 {
        if growth > 2048 {
            rep.fail(
                format!("stack-grows:{}", tag),
                format!("machine stack grew by {} bytes over {} iterations ({} B/iteration)", growth, n / 2, growth / (n as i64 / 2).max(1)),
            );
        }
        if heap_growth > (n as isize) / 2 {
            // one signature for the frame <-> internal-closure cycle, whatever the tail context
            let sig = if shape == "body-with-internal-procedure" { "heap-grows:frame-holds-its-own-internal-procedure".to_string() } else { format!("heap-grows:{}", tag) };
            rep.fail(sig, format!("live heap grew by {} bytes over the last {} iterations", heap_growth, n / 2));
        }
    }
    rep
}

pub fn run(ctx: &Ctx) {
    ctx.set_rule(
        "loop programs = loop shape (self, 2-/3-way mutual, through a procedure parameter, variadic with re-spread rest \
         argument, variadic with an empty rest list (always / after the first call / alternating through a fixed-arity partner), all arguments in a rest list, closure-returned, internal definition, a fresh closure per iteration, apply arriving as a parameter and handed to itself, a looping body with internal \
         variable definitions / with an internal procedure definition, the tail call forwarded by (define (forward f . args) (apply f args)), a three-procedure cycle through \
         one-call bodies, a tail call whose operator is an if / cond / and / or expression, a tail call whose operator \
         expression counts its own evaluations, a loop without operands whose state lives in globals) x composition of tail contexts (23: body-last, if-then, if-else, if / when / and with a variable or a non-boolean true value as test, \
         begin, let, let*, cond clause/else/=>, case clause/else, and, or, when, unless, apply, apply handed to apply, \
         apply imported under another name / with a prefix) x N; the loop calls (probe i) \
         once per iteration, which records the real machine stack address and the thread's live heap bytes. Quick: every \
         single context and every depth-2 composition for the self shape (N=64 and N=4000), every shape x every single \
         context; thorough: all depth-2 compositions x all shapes, sampled depth-3, N=64 and N=40000. Oracle: result equals \
         the closed form computed in Rust; stack depth over the second half minus the first eighth <= 2 KiB; live heap over \
         the second half grows by < 1 byte per iteration. Non-trivial = composition depth >= 2 or a shape other than self.",
    );
    ctx.assume("measurements are of this build (opt-level 2, debug assertions on); boundedness is shown only for the N that were run");
    let big = ctx.tier.pick(4_000u32, 40_000u32);
    // every shape x every single context x {small, big}
    let shapes: Vec<&str> = SHAPES_ALL.to_vec();
    let singles = (shapes.len() * CONTEXTS.len() * 2) as u64;
    ctx.indexed("single-context", singles, 1, |i| {
        let i = i as usize;
        let n = if i % 2 == 0 { 64 } else { big };
        let c = CONTEXTS[(i / 2) % CONTEXTS.len()];
        let s = shapes[i / 2 / CONTEXTS.len()];
        Some(judge(s, &[c], n))
    });
    // depth-2 compositions
    let pairs = (CONTEXTS.len() * CONTEXTS.len()) as u64;
    let shape_count = ctx.tier.pick(1usize, shapes.len());
    ctx.indexed("depth-2", pairs * shape_count as u64, 1, |i| {
        let i = i as usize;
        let nc = CONTEXTS.len();
        let (a, b) = (CONTEXTS[i % nc], CONTEXTS[(i / nc) % nc]);
        let s = shapes[i / (nc * nc)];
        Some(judge(s, &[a, b], big))
    });
    // sampled: depth-2 on the other shapes (quick), depth-3 (thorough)
    let cases = ctx.tier.pick(400, 3000);
    ctx.random("sampled-compositions", cases, 8, |ch| {
        let depth = 2 + ch.below(2);
        let cs: Vec<&str> = (0..depth).map(|_| *ch.pick(&CONTEXTS)).collect();
        let s = *ch.pick(&SHAPES_ALL);
        let n = if ch.chance(1, 4) { 64 } else { big };
        judge(s, &cs, n)
    });
}
