use crate::runner::Ctx;

pub mod c07;

/// dispatch; false if the id is unknown
pub fn run(ctx: &Ctx) -> bool {
    match ctx.prop.as_str() {
        "C07" => c07::run(ctx),
        _ => return false,
    }
    true
}
