//! C03 — mutable state: bindings and vectors are shared by reference.
use crate::ast::*;
use crate::progcheck::{compare, obs_text, program_text, run_sut, Cmp, Obs};
use crate::refeval::{Machine, RVal, ORDERS};
use crate::runner::{Chooser, Ctx, Report};
use crate::sut::{Budget, Outcome, SVal};
use std::collections::HashMap;

fn d(n: &str, v: Expr) -> Form {
    Form::Define(Def { name: n.into(), value: v, sugar: false })
}
fn dp(n: &str, fixed: &[&str], body: Vec<Expr>) -> Form {
    Form::Define(Def {
        name: n.into(),
        value: Expr::Lambda(Formals { fixed: fixed.iter().map(|s| s.to_string()).collect(), rest: None }, Box::new(Body { defs: vec![], exprs: body })),
        sugar: true,
    })
}
fn lam(fixed: &[&str], body: Vec<Expr>) -> Expr {
    Expr::Lambda(Formals { fixed: fixed.iter().map(|s| s.to_string()).collect(), rest: None }, Box::new(Body { defs: vec![], exprs: body }))
}
fn lam_fixed(fixed: &[&str], body: Vec<Expr>) -> Expr {
    lam(fixed, body)
}
fn set(n: &str, v: Expr) -> Expr {
    Expr::Set(n.into(), Box::new(v))
}
fn inc(n: &str, by: Expr) -> Expr {
    set(n, app("+", vec![var(n), by]))
}
fn sym(s: &str) -> Expr {
    Expr::Quote(Datum::Sym(s.into()))
}

#[derive(Clone, Debug, PartialEq)]
enum Kind {
    /// procedure of no arguments returning a number
    Counter,
    /// procedure of one number
    Accum,
    /// list of two procedures (bump, read) over one binding
    PairOfClosures,
    Global,
    /// vector of atoms (mutable?)
    PlainVec(bool),
    /// vector that may hold plain vectors
    ContainerVec,
    /// list holding vectors
    ListOfVecs,
    /// closure that writes into a captured vector
    Poker,
}

pub struct History {
    pub forms: Vec<Form>,
    names: Vec<(String, Kind)>,
    pub labels: Vec<&'static str>,
}

impl History {
    fn of(&self, pred: impl Fn(&Kind) -> bool) -> Vec<String> {
        // innermost (latest) definition of each name wins
        let mut latest: HashMap<&str, &Kind> = HashMap::new();
        for (n, k) in &self.names {
            latest.insert(n.as_str(), k);
        }
        let mut v: Vec<String> = latest.into_iter().filter(|(_, k)| pred(k)).map(|(n, _)| n.to_string()).collect();
        v.sort();
        v
    }
    fn label(&mut self, l: &'static str) {
        if !self.labels.contains(&l) {
            self.labels.push(l);
        }
    }
}

fn makers() -> Vec<Form> {
    vec![
        // counter maker over its parameter
        dp("mk-counter", &["start"], vec![lam(&[], vec![inc("start", Expr::Int(1)), var("start")])]),
        // accumulator maker
        dp("mk-accum", &["acc"], vec![lam(&["dx"], vec![inc("acc", var("dx")), var("acc")])]),
        // two closures over one binding
        dp("mk-pair", &["n"], vec![app("list", vec![lam(&[], vec![inc("n", Expr::Int(1)), var("n")]), lam(&[], vec![var("n")])])]),
        // state in an internal definition
        Form::Define(Def {
            name: "mk-tens".into(),
            sugar: true,
            value: Expr::Lambda(
                Formals { fixed: vec![], rest: None },
                Box::new(Body { defs: vec![Def { name: "n".into(), value: Expr::Int(0), sugar: false }], exprs: vec![lam(&[], vec![inc("n", Expr::Int(10)), var("n")])] }),
            ),
        }),
        // the closure is made inside a frame of its own while the maker's frame is still empty; its state is the
        // internal definition that follows (a global of the same name exists: g1)
        Form::Define(Def {
            name: "mk-late".into(),
            sugar: true,
            value: Expr::Lambda(
                Formals { fixed: vec![], rest: None },
                Box::new(Body {
                    defs: vec![
                        Def { name: "bump".into(), value: Expr::Let(vec![("step".into(), Expr::Int(1))], body1(lam(&[], vec![inc("g1", var("step")), var("g1")]))), sugar: false },
                        Def { name: "g1".into(), value: Expr::Int(0), sugar: false },
                    ],
                    exprs: vec![var("bump")],
                }),
            ),
        }),
        // a self tail call that makes one accumulator per round, each over the round's own `total`
        Form::Define(Def {
            name: "mk-accs".into(),
            sugar: true,
            value: lam_fixed(
                &["k", "total", "made"],
                vec![Expr::If(
                    Box::new(app("=", vec![var("k"), Expr::Int(0)])),
                    Box::new(var("made")),
                    Some(Box::new(app(
                        "mk-accs",
                        vec![
                            app("-", vec![var("k"), Expr::Int(1)]),
                            app("*", vec![var("total"), Expr::Int(10)]),
                            app("cons", vec![lam(&["dx"], vec![inc("total", var("dx")), var("total")]), var("made")]),
                        ],
                    ))),
                )],
            ),
        }),
        // let* with a repeated name: two bindings, a closure made between them sees the first one
        Form::Define(Def {
            name: "mk-star".into(),
            sugar: true,
            value: lam(
                &["start"],
                vec![Expr::LetStar(
                    vec![
                        ("n".into(), var("start")),
                        ("get-first".into(), lam(&[], vec![var("n")])),
                        ("n".into(), app("+", vec![var("n"), Expr::Int(100)])),
                    ],
                    body1(app("list", vec![lam(&[], vec![inc("n", Expr::Int(1)), var("n")]), var("get-first")])),
                )],
            ),
        }),
        // a counter whose step is a global read through two enclosing frames: a later assignment / re-definition of the
        // global must be seen by the next call
        Form::Define(Def {
            name: "mk-stepper".into(),
            sugar: true,
            value: lam(
                &[],
                vec![Expr::Let(
                    vec![("n".into(), Expr::Int(0))],
                    body1(Expr::Let(vec![("pad".into(), Expr::Int(0))], body1(lam(&[], vec![inc("n", app("+", vec![var("g1"), var("pad")])), var("n")])))),
                )],
            ),
        }),
        // assignment to a parameter must not leak
        dp("bump-param", &["x"], vec![inc("x", Expr::Int(1)), var("x")]),
        // write through a vector received as argument
        dp("poke", &["v", "i", "x"], vec![app("vector-set!", vec![var("v"), var("i"), var("x")])]),
        dp("mk-poker", &["v"], vec![lam(&["x"], vec![app("vector-set!", vec![var("v"), Expr::Int(0), var("x")])])]),
        dp("ident", &["x"], vec![var("x")]),
        dp("second", &["a", "b"], vec![var("b")]),
    ]
}

pub fn gen_history(ch: &mut Chooser, max_steps: usize) -> History {
    let mut h = History { forms: makers(), names: vec![], labels: vec![] };
    let steps = 4 + ch.below(max_steps);
    let counters = ["c1", "c2", "c3", "c4", "c5"];
    let globals = ["g1", "g2", "g3"];
    let vecs = ["v1", "v2", "v3", "v4"];
    let mut tick = 0;
    for _ in 0..steps {
        let op = ch.weighted(&[4, 6, 3, 3, 4, 5, 6, 4, 3, 3, 2, 2, 4, 2, 1, 1, 1, 1, 1, 1]);
        match op {
            15 => {
                // a variable is assigned a new object that is equal in content to the one it holds: the old object
                // (still reachable through another name) and the new one are different objects
                let k = h.forms.len();
                if ch.chance(1, 2) {
                    let (v, a) = (format!("rv{}", k), format!("ra{}", k));
                    h.forms.push(d(&v, app("vector", vec![Expr::Int(0), Expr::Int(0)])));
                    h.forms.push(d(&a, var(&v)));
                    h.forms.push(Form::Expr(set(&v, app("vector", vec![Expr::Int(0), Expr::Int(0)]))));
                    h.forms.push(Form::Expr(app("vector-set!", vec![var(&v), Expr::Int(0), Expr::Int(9)])));
                    h.forms.push(Form::Expr(app("list", vec![app("vector-ref", vec![var(&a), Expr::Int(0)]), app("vector-ref", vec![var(&v), Expr::Int(0)]), app("eqv?", vec![var(&a), var(&v)])])));
                } else {
                    let (c, a) = (format!("rc{}", k), format!("rd{}", k));
                    h.forms.push(d(&c, app("mk-counter", vec![Expr::Int(0)])));
                    h.forms.push(d(&a, var(&c)));
                    h.forms.push(Form::Expr(set(&c, app("mk-counter", vec![Expr::Int(0)]))));
                    h.forms.push(Form::Expr(app("list", vec![app(&c, vec![]), app(&c, vec![]), app(&a, vec![])])));
                }
                h.label("assigned-an-equal-but-distinct-object");
            }
            16 => {
                // a closure leaves its defining call only through an assignment / a vector slot while the call itself
                // returns a number; it is called afterwards
                let k = h.forms.len();
                let (hold, inst) = (format!("hold{}", k), format!("install{}", k));
                h.forms.push(d(&hold, app("vector", vec![Expr::Bool(false), Expr::Bool(false)])));
                h.forms.push(dp(
                    &inst,
                    &["init"],
                    vec![
                        app("vector-set!", vec![var(&hold), Expr::Int(0), lam(&[], vec![var("init")])]),
                        app("vector-set!", vec![var(&hold), Expr::Int(1), lam(&["dx"], vec![inc("init", var("dx")), var("init")])]),
                        Expr::Int(0),
                    ],
                ));
                h.forms.push(Form::Expr(app(&inst, vec![Expr::Int(ch.range(1, 9) as i32)])));
                h.forms.push(Form::Expr(Expr::App(Box::new(app("vector-ref", vec![var(&hold), Expr::Int(0)])), vec![])));
                h.forms.push(Form::Expr(Expr::App(Box::new(app("vector-ref", vec![var(&hold), Expr::Int(1)])), vec![Expr::Int(2)])));
                h.forms.push(Form::Expr(Expr::App(Box::new(app("vector-ref", vec![var(&hold), Expr::Int(0)])), vec![])));
                h.label("closure-escapes-through-a-side-effect");
            }
            19 => {
                // a form that fails after it has assigned a global, written a vector slot and bumped a closure's state:
                // what was done before the error stays done, for every reader
                let k = h.forms.len();
                let (g, v, c) = (format!("eg{}", k), format!("ev{}", k), format!("ec{}", k));
                h.forms.push(d(&g, Expr::Int(0)));
                h.forms.push(d(&v, app("vector", vec![Expr::Int(0), Expr::Int(0)])));
                h.forms.push(d(&c, app("mk-counter", vec![Expr::Int(0)])));
                let boom = match ch.below(3) {
                    0 => app("vector-ref", vec![var(&v), Expr::Int(5)]),
                    1 => app("car", vec![app(&c, vec![])]),
                    _ => app("vector-set!", vec![Expr::VecLit(vec![Datum::Int(1)]), Expr::Int(0), Expr::Int(9)]),
                };
                h.forms.push(Form::Expr(Expr::App(
                    Box::new(lam(&[], vec![set(&g, Expr::Int(10)), app("vector-set!", vec![var(&v), Expr::Int(1), var(&g)]), app(&c, vec![]), boom, set(&g, Expr::Int(99))])),
                    vec![],
                )));
                h.forms.push(Form::Expr(app("list", vec![var(&g), app("vector-ref", vec![var(&v), Expr::Int(1)])])));
                h.forms.push(Form::Expr(app(&c, vec![])));
                h.label("error-after-assignments-in-one-form");
            }
            17 => {
                // a defined procedure that mentions its own name, while the name is assigned / defined again and the old
                // procedure stays reachable through another name: the name designates one top-level variable throughout
                let k = h.forms.len();
                match ch.below(3) {
                    0 => {
                        let (f, a) = (format!("once{}", k), format!("old-once{}", k));
                        h.forms.push(dp(&f, &[], vec![set(&f, lam(&[], vec![sym("later")])), sym("first")]));
                        h.forms.push(d(&a, var(&f)));
                        for who in [&f, &f, &a, &f] {
                            h.forms.push(Form::Expr(app(who, vec![])));
                        }
                    }
                    1 => {
                        let (f, a) = (format!("walk{}", k), format!("old-walk{}", k));
                        let body = Expr::If(
                            Box::new(app("=", vec![var("n"), Expr::Int(0)])),
                            Box::new(sym("stopped")),
                            Some(Box::new(app(&f, vec![app("-", vec![var("n"), Expr::Int(1)])]))),
                        );
                        h.forms.push(dp(&f, &["n"], vec![body]));
                        h.forms.push(d(&a, var(&f)));
                        h.forms.push(Form::Expr(app(&a, vec![Expr::Int(2)])));
                        if ch.chance(1, 2) {
                            h.forms.push(Form::Expr(set(&f, lam(&["n"], vec![app("list", vec![sym("replaced"), var("n")])]))));
                        } else {
                            h.forms.push(dp(&f, &["n"], vec![app("list", vec![sym("replaced"), var("n")])]));
                        }
                        h.forms.push(Form::Expr(app("list", vec![app(&a, vec![Expr::Int(2)]), app(&a, vec![Expr::Int(0)]), app(&f, vec![Expr::Int(5)])])));
                    }
                    _ => {
                        // the procedure counts in a variable of its own name's sibling and re-installs itself
                        let (f, c) = (format!("self{}", k), format!("self-count{}", k));
                        h.forms.push(d(&c, Expr::Int(0)));
                        h.forms.push(d(&f, lam(&[], vec![inc(&c, Expr::Int(1)), Expr::If(Box::new(app(">", vec![var(&c), Expr::Int(1)])), Box::new(set(&f, Expr::Int(7))), None), var(&c)])));
                        h.forms.push(Form::Expr(app(&f, vec![])));
                        h.forms.push(Form::Expr(app(&f, vec![])));
                        h.forms.push(Form::Expr(var(&f)));
                    }
                }
                h.label("procedure-refers-to-its-own-name-across-reassignment");
            }
            18 => {
                // a variable (global, parameter, let-bound) whose current value is a builtin procedure is assigned
                let k = h.forms.len();
                // (the model does not know the identity of builtins: they are told apart by what they compute)
                let prims = ["+", "max", "*", "min", "-"];
                let probe = |f: Expr| Expr::App(Box::new(f), vec![Expr::Int(7), Expr::Int(2)]);
                let (p, q) = (*ch.pick(&prims), *ch.pick(&prims));
                match ch.below(3) {
                    0 => {
                        let (op, user) = (format!("op{}", k), format!("use-op{}", k));
                        h.forms.push(d(&op, var(p)));
                        h.forms.push(dp(&user, &[], vec![app("procedure?", vec![var(&op)])]));
                        h.forms.push(Form::Expr(set(&op, var(q))));
                        h.forms.push(Form::Expr(app("list", vec![app(&user, vec![]), probe(var(&op))])));
                        h.forms.push(Form::Expr(set(&op, Expr::Int(3))));
                        h.forms.push(Form::Expr(app("list", vec![app(&user, vec![]), var(&op)])));
                    }
                    1 => {
                        // the parameter of a generator holds the builtin; one closure replaces it, the other reads it
                        let (mk, pr) = (format!("mk-op{}", k), format!("ops{}", k));
                        h.forms.push(dp(&mk, &["f"], vec![app("list", vec![lam(&["g"], vec![set("f", var("g")), Expr::Int(0)]), lam(&[], vec![var("f")])])]));
                        h.forms.push(d(&pr, app(&mk, vec![var(p)])));
                        h.forms.push(Form::Expr(probe(Expr::App(Box::new(app("cadr", vec![var(&pr)])), vec![]))));
                        h.forms.push(Form::Expr(Expr::App(Box::new(app("car", vec![var(&pr)])), vec![var(q)])));
                        h.forms.push(Form::Expr(probe(Expr::App(Box::new(app("cadr", vec![var(&pr)])), vec![]))));
                        h.forms.push(Form::Expr(Expr::App(Box::new(app("car", vec![var(&pr)])), vec![Expr::Int(5)])));
                        h.forms.push(Form::Expr(Expr::App(Box::new(app("cadr", vec![var(&pr)])), vec![])));
                    }
                    _ => {
                        h.forms.push(Form::Expr(Expr::Let(
                            vec![("held".into(), var(p))],
                            Box::new(Body { defs: vec![], exprs: vec![set("held", Expr::Int(1)), set("held", app("+", vec![var("held"), Expr::Int(1)])), var("held")] }),
                        )));
                    }
                }
                h.label("variable-holding-a-builtin-is-assigned");
            }
            14 => {
                // a vector stored into one of its own slots: the slot is one more name for the same vector. Only
                // acyclic values are read back (the vector itself is never returned or printed).
                let c = format!("cyc{}", h.forms.len());
                let k = ch.below(3) as i32;
                let j = (k + 1) % 3;
                h.forms.push(d(&c, app("vector", vec![Expr::Int(1), Expr::Int(2), Expr::Int(3)])));
                h.forms.push(Form::Expr(app("vector-set!", vec![var(&c), Expr::Int(k), var(&c)])));
                h.forms.push(Form::Expr(app("eqv?", vec![app("vector-ref", vec![var(&c), Expr::Int(k)]), var(&c)])));
                h.forms.push(Form::Expr(app("vector-set!", vec![app("vector-ref", vec![var(&c), Expr::Int(k)]), Expr::Int(j), sym("via-slot")])));
                h.forms.push(Form::Expr(app("vector-ref", vec![var(&c), Expr::Int(j)])));
                h.forms.push(Form::Expr(app("vector-set!", vec![var(&c), Expr::Int(j), sym("via-name")])));
                h.forms.push(Form::Expr(app("vector-ref", vec![app("vector-ref", vec![app("vector-ref", vec![var(&c), Expr::Int(k)]), Expr::Int(k)]), Expr::Int(j)])));
                h.label("vector-stored-into-itself");
            }
            0 => {
                // instantiate a counter-like closure
                let n = *ch.pick(&counters);
                match ch.below(7) {
                    6 => {
                        // (needs the global g1: defined here if it is not yet)
                        if !h.names.iter().any(|(m, _)| m == "g1") {
                            h.forms.push(d("g1", Expr::Int(ch.range(1, 5) as i32)));
                            h.names.push(("g1".into(), Kind::Global));
                        }
                        h.forms.push(d(n, app("mk-stepper", vec![])));
                        h.names.push((n.into(), Kind::Counter));
                        h.label("closure-reads-a-global-that-changes");
                    }
                    5 => {
                        // two accumulators made by consecutive rounds of one self-tail-calling loop
                        let n2 = *ch.pick(&counters);
                        if n2 != n {
                            let l = format!("accs{}", h.forms.len());
                            h.forms.push(d(&l, app("mk-accs", vec![Expr::Int(3), Expr::Int(1), Expr::Quote(Datum::List(vec![], None))])));
                            h.forms.push(d(n, app("car", vec![var(&l)])));
                            h.names.push((n.into(), Kind::Accum));
                            h.forms.push(d(n2, app("cadr", vec![var(&l)])));
                            h.names.push((n2.into(), Kind::Accum));
                            h.label("closures-from-consecutive-rounds");
                        }
                    }
                    4 => {
                        h.forms.push(d(n, app("mk-late", vec![])));
                        h.names.push((n.into(), Kind::Counter));
                    }
                    0 => {
                        h.forms.push(d(n, app("mk-counter", vec![Expr::Int(ch.range(0, 9) as i32)])));
                        h.names.push((n.into(), Kind::Counter));
                    }
                    1 => {
                        h.forms.push(d(n, app("mk-accum", vec![Expr::Int(ch.range(0, 9) as i32)])));
                        h.names.push((n.into(), Kind::Accum));
                    }
                    2 => {
                        let maker = if ch.chance(1, 3) { "mk-star" } else { "mk-pair" };
                        h.forms.push(d(n, app(maker, vec![Expr::Int(ch.range(0, 9) as i32)])));
                        h.names.push((n.into(), Kind::PairOfClosures));
                    }
                    _ => {
                        h.forms.push(d(n, app("mk-tens", vec![])));
                        h.names.push((n.into(), Kind::Counter));
                    }
                }
            }
            1 => {
                // call a closure
                let cs = h.of(|k| matches!(k, Kind::Counter | Kind::Accum | Kind::PairOfClosures));
                if cs.is_empty() {
                    continue;
                }
                let n = ch.pick(&cs).clone();
                let kind = h.names.iter().rev().find(|(m, _)| *m == n).unwrap().1.clone();
                tick += 1;
                let call = match kind {
                    Kind::Counter => app(&n, vec![]),
                    Kind::Accum => app(&n, vec![Expr::Int(ch.range(1, 5) as i32)]),
                    _ => {
                        if ch.chance(1, 2) {
                            Expr::App(Box::new(app("car", vec![var(&n)])), vec![])
                        } else {
                            h.label("two-closures-one-binding");
                            Expr::App(Box::new(app("cadr", vec![var(&n)])), vec![])
                        }
                    }
                };
                h.forms.push(Form::Expr(Expr::Tick(tick, Box::new(call))));
                if h.of(|k| matches!(k, Kind::Counter | Kind::Accum | Kind::PairOfClosures)).len() >= 2 {
                    h.label("several-closures");
                }
            }
            2 => {
                let n = *ch.pick(&globals);
                h.forms.push(d(n, Expr::Int(ch.range(0, 9) as i32)));
                h.names.push((n.into(), Kind::Global));
            }
            3 => {
                // assign a global, directly / through a procedure / attempt through a parameter
                let gs = h.of(|k| *k == Kind::Global);
                if gs.is_empty() {
                    continue;
                }
                let g = ch.pick(&gs).clone();
                match ch.below(4) {
                    0 => h.forms.push(Form::Expr(inc(&g, Expr::Int(ch.range(1, 3) as i32)))),
                    1 => {
                        // a procedure that closes over the global binding
                        let p = format!("inc-{}", g);
                        h.forms.push(dp(&p, &[], vec![inc(&g, Expr::Int(1)), var(&g)]));
                        h.forms.push(Form::Expr(app(&p, vec![])));
                        h.label("set-through-procedure");
                    }
                    2 => {
                        h.forms.push(Form::Expr(app("bump-param", vec![var(&g)])));
                        h.label("set-of-parameter");
                    }
                    _ => {
                        // shadowing: a let-free local binding of the same name is assigned, the global is not
                        h.forms.push(Form::Expr(Expr::App(Box::new(lam(&[&g], vec![inc(&g, Expr::Int(5)), var(&g)])), vec![Expr::Int(1)])));
                        h.label("set-of-shadowing-binding");
                    }
                }
                h.forms.push(Form::Expr(var(&g)));
            }
            4 => {
                // create a vector
                let n = *ch.pick(&vecs);
                let plain = h.of(|k| matches!(k, Kind::PlainVec(_)));
                match ch.below(5) {
                    0 => {
                        let len = if ch.chance(1, 2) { 3 } else { 1 + ch.below(3) };
                        h.forms.push(d(n, app("vector", (0..len).map(|i| Expr::Int(i as i32)).collect())));
                        h.names.push((n.into(), Kind::PlainVec(true)));
                    }
                    1 => {
                        h.forms.push(d(n, app("make-vector", vec![Expr::Int(1 + ch.below(3) as i32), sym("z")])));
                        h.names.push((n.into(), Kind::PlainVec(true)));
                    }
                    2 => {
                        h.forms.push(d(n, Expr::VecLit((0..1 + ch.below(3)).map(|i| Datum::Int(i as i32 + 10)).collect())));
                        h.names.push((n.into(), Kind::PlainVec(false)));
                    }
                    3 if !plain.is_empty() => {
                        // vector-valued fill: every slot is the same vector
                        let src: Vec<String> = plain.into_iter().filter(|p| p != n).collect();
                        if src.is_empty() {
                            continue;
                        }
                        let s = ch.pick(&src).clone();
                        h.forms.push(d(n, app("make-vector", vec![Expr::Int(2), var(&s)])));
                        h.names.push((n.into(), Kind::ContainerVec));
                        h.label("vector-valued-fill");
                    }
                    _ if !plain.is_empty() => {
                        let src: Vec<String> = plain.into_iter().filter(|p| p != n).collect();
                        if src.is_empty() {
                            continue;
                        }
                        let s = ch.pick(&src).clone();
                        h.forms.push(d(n, app("vector", vec![var(&s), Expr::Int(0)])));
                        h.names.push((n.into(), Kind::ContainerVec));
                        h.label("vector-in-vector");
                    }
                    _ => continue,
                }
            }
            5 => {
                // alias a plain vector under another name, through various paths
                let plain = h.of(|k| matches!(k, Kind::PlainVec(_)));
                if plain.is_empty() {
                    continue;
                }
                let s = ch.pick(&plain).clone();
                let n = *ch.pick(&vecs);
                if n == s {
                    continue;
                }
                let kind = h.names.iter().rev().find(|(m, _)| *m == s).unwrap().1.clone();
                let e = match ch.below(5) {
                    0 => var(&s),
                    1 => app("ident", vec![var(&s)]),
                    2 => app("second", vec![Expr::Int(1), var(&s)]),
                    3 => app("car", vec![app("list", vec![var(&s), Expr::Int(5)])]),
                    _ => app("vector-ref", vec![app("vector", vec![Expr::Int(0), var(&s)]), Expr::Int(1)]),
                };
                h.forms.push(d(n, e));
                h.names.push((n.into(), kind));
                h.label("alias");
            }
            6 => {
                // write into a plain vector, through some access path
                let plain = h.of(|k| matches!(k, Kind::PlainVec(_)));
                if plain.is_empty() {
                    continue;
                }
                let s = ch.pick(&plain).clone();
                let kind = h.names.iter().rev().find(|(m, _)| *m == s).unwrap().1.clone();
                tick += 1;
                let val = match ch.below(3) {
                    0 => Expr::Int(100 + tick),
                    1 => sym(&format!("w{}", tick)),
                    _ => app("+", vec![Expr::Int(tick), Expr::Int(1000)]),
                };
                let e = match ch.below(3) {
                    0 => app("vector-set!", vec![var(&s), Expr::Int(0), val]),
                    1 => app("poke", vec![var(&s), Expr::Int(0), val]),
                    _ => Expr::App(Box::new(app("mk-poker", vec![var(&s)])), vec![val]),
                };
                if kind == Kind::PlainVec(false) {
                    h.label("literal-mutation-attempt");
                }
                h.forms.push(Form::Expr(e));
                h.label("vector-write");
            }
            7 => {
                // write through a container: (vector-set! (vector-ref cv 0) 0 x)
                let cvs = h.of(|k| *k == Kind::ContainerVec);
                if cvs.is_empty() {
                    continue;
                }
                let c = ch.pick(&cvs).clone();
                tick += 1;
                h.forms.push(Form::Expr(app("vector-set!", vec![app("vector-ref", vec![var(&c), Expr::Int(0)]), Expr::Int(0), sym(&format!("via{}", tick))])));
                h.label("write-through-container");
            }
            8 => {
                // a list holding vectors, and a write through it
                let plain = h.of(|k| matches!(k, Kind::PlainVec(true)));
                if plain.len() < 1 {
                    continue;
                }
                let a = ch.pick(&plain).clone();
                let b = ch.pick(&plain).clone();
                h.forms.push(d("lst", app("list", vec![var(&a), var(&b)])));
                h.names.push(("lst".into(), Kind::ListOfVecs));
                tick += 1;
                h.forms.push(Form::Expr(app("vector-set!", vec![app(if ch.chance(1, 2) { "car" } else { "cadr" }, vec![var("lst")]), Expr::Int(0), sym(&format!("l{}", tick))])));
                h.label("write-through-list");
            }
            9 => {
                // a closure capturing a vector
                let plain = h.of(|k| matches!(k, Kind::PlainVec(true)));
                if plain.is_empty() {
                    continue;
                }
                let a = ch.pick(&plain).clone();
                h.forms.push(d("poker", app("mk-poker", vec![var(&a)])));
                h.names.push(("poker".into(), Kind::Poker));
                tick += 1;
                h.forms.push(Form::Expr(app("poker", vec![sym(&format!("pk{}", tick))])));
                h.label("write-through-captured-reference");
            }
            10 => {
                // in-language identity probes
                let vs = h.of(|k| matches!(k, Kind::PlainVec(_)));
                if vs.len() < 2 {
                    continue;
                }
                let a = ch.pick(&vs).clone();
                let b = ch.pick(&vs).clone();
                h.forms.push(Form::Expr(app("eqv?", vec![var(&a), var(&b)])));
            }
            12 => {
                // store another (possibly equal-looking) plain vector into a slot of an existing container
                let cvs = h.of(|k| *k == Kind::ContainerVec);
                let plain = h.of(|k| matches!(k, Kind::PlainVec(_)));
                if cvs.is_empty() || plain.is_empty() {
                    continue;
                }
                let c = ch.pick(&cvs).clone();
                let v = ch.pick(&plain).clone();
                let slot = ch.below(2) as i32;
                h.forms.push(Form::Expr(app("vector-set!", vec![var(&c), Expr::Int(slot), var(&v)])));
                h.label("vector-stored-into-container-slot");
                // and a fresh vector with the same contents as what the slot may hold
                if ch.chance(1, 2) {
                    h.forms.push(Form::Expr(app("vector-set!", vec![var(&c), Expr::Int(slot), app("vector", vec![Expr::Int(0), Expr::Int(1), Expr::Int(2)])])));
                    tick += 1;
                    h.forms.push(Form::Expr(app("vector-set!", vec![app("vector-ref", vec![var(&c), Expr::Int(slot)]), Expr::Int(0), sym(&format!("fresh{}", tick))])));
                }
            }
            13 => {
                // write the value a slot already holds (a no-op on a mutable vector, still an error on a literal)
                let plain = h.of(|k| matches!(k, Kind::PlainVec(_)));
                if plain.is_empty() {
                    continue;
                }
                let s = ch.pick(&plain).clone();
                h.forms.push(Form::Expr(app("vector-set!", vec![var(&s), Expr::Int(0), app("vector-ref", vec![var(&s), Expr::Int(0)])])));
                h.label("write-back-same-value");
            }
            _ => {
                // probe: read everything that is live
                probe(&mut h);
            }
        }
    }
    probe(&mut h);
    h
}

fn probe(h: &mut History) {
    let mut reads = vec![];
    for g in h.of(|k| *k == Kind::Global) {
        reads.push(var(&g));
    }
    for v in h.of(|k| matches!(k, Kind::PlainVec(_) | Kind::ContainerVec | Kind::ListOfVecs)) {
        reads.push(var(&v));
    }
    for c in h.of(|k| *k == Kind::PairOfClosures) {
        reads.push(Expr::App(Box::new(app("cadr", vec![var(&c)])), vec![]));
    }
    h.forms.push(Form::Expr(app("list", reads)));
}

/// vector-valued top-level variables at the end of the history: names
fn vector_names(h: &History) -> Vec<String> {
    h.of(|k| matches!(k, Kind::PlainVec(_) | Kind::ContainerVec))
}

fn alias_partition_check(h: &History, rep: &mut Report) {
    let names = vector_names(h);
    if names.len() < 2 {
        return;
    }
    // model identities
    let mut m = Machine::new(ORDERS[0]);
    for f in &h.forms {
        let _ = m.eval_form(f);
    }
    let mut forms = h.forms.clone();
    for n in &names {
        forms.push(Form::Expr(var(n)));
    }
    let obs: Obs = run_sut(&forms, Budget::GENEROUS);
    let base = h.forms.len();
    let mut ids: Vec<(usize, usize)> = vec![];
    for (i, n) in names.iter().enumerate() {
        let model_id = match m.global.vars.borrow().iter().find(|(k, _)| k == n).map(|(_, v)| v.clone()) {
            Some(RVal::Vector(id)) => id,
            _ => return,
        };
        let sut_id = match obs.get(base + i) {
            Some((Outcome::Value(SVal::Vector { id, .. }), _)) => *id,
            other => {
                rep.fail("alias-probe-not-a-vector", format!("{} evaluates to {:?}", n, other.map(|o| o.0.show())));
                return;
            }
        };
        ids.push((model_id, sut_id));
    }
    for i in 0..ids.len() {
        for j in (i + 1)..ids.len() {
            let model_same = ids[i].0 == ids[j].0;
            let sut_same = ids[i].1 == ids[j].1;
            if model_same != sut_same {
                rep.fail(
                    if model_same { "aliases-separated" } else { "distinct-vectors-merged" },
                    format!("{} and {}: same object in the model = {}, same Rc in the interpreter = {}", names[i], names[j], model_same, sut_same),
                );
                return;
            }
        }
    }
}

/// a run [i, j) of 2-4 consecutive definitions from `start` on, optionally extended by the form that follows; every form
/// of it succeeds in the model without a tick (so that entering it as one text changes nothing but what is printed)
fn joined_window(ch: &mut Chooser, forms: &[Form], start: usize) -> Option<(usize, usize)> {
    let mut m = Machine::new(ORDERS[0]);
    let mut fine = vec![];
    for f in forms {
        m.trace.clear();
        let ok = m.eval_form(f).is_ok();
        fine.push(ok && m.trace.is_empty());
    }
    let is_def = |k: usize| matches!(forms[k], Form::Define(_)) && fine[k];
    let starts: Vec<usize> = (start..forms.len().saturating_sub(1)).filter(|k| is_def(*k) && is_def(*k + 1)).collect();
    if starts.is_empty() {
        return None;
    }
    let i = starts[ch.below(starts.len())];
    let mut j = i + 2;
    while j < forms.len() && j - i < 4 && is_def(j) {
        j += 1;
    }
    if j < forms.len() && fine[j] && ch.chance(1, 2) {
        j += 1;
    }
    Some((i, j))
}

pub fn case(ch: &mut Chooser, max_steps: usize) -> Report {
    let h = gen_history(ch, max_steps);
    let mut rep = Report::new(program_text(&h.forms[makers().len()..]));
    for l in &h.labels {
        rep.label(*l);
    }
    rep.nontrivial = h.labels.iter().any(|l| matches!(*l, "alias" | "write-through-container" | "write-through-list" | "write-through-captured-reference" | "two-closures-one-binding" | "vector-valued-fill"))
        && (h.labels.contains(&"vector-write") || h.labels.contains(&"several-closures"));
    // a third of the histories enter a run of consecutive definitions (and possibly the form after it) as ONE source
    // text: nothing but the value printed for it may depend on where one text ends and the next begins
    let window = if ch.chance(1, 3) { joined_window(ch, &h.forms, makers().len()) } else { None };
    let obs = match window {
        None => run_sut(&h.forms, Budget::GENEROUS),
        Some((i, j)) => {
            rep.label("several-forms-in-one-text");
            let mut texts: Vec<String> = h.forms[..i].iter().map(render_form).collect();
            texts.push(h.forms[i..j].iter().map(render_form).collect::<Vec<_>>().join("\n"));
            texts.extend(h.forms[j..].iter().map(render_form));
            let got = crate::sut::run_forms(texts, Some(Budget::GENEROUS));
            let mut obs: Obs = got[..i.min(got.len())].to_vec();
            if let Some(joined) = got.get(i) {
                if matches!(joined.0, Outcome::Error(_) | Outcome::Panic { .. }) {
                    obs.push(joined.clone());
                }
                while obs.len() < j - 1 {
                    obs.push((Outcome::NoValue, vec![]));
                }
                if obs.len() < j {
                    obs.push(joined.clone());
                }
                obs.extend(got[i + 1..].iter().cloned());
            }
            obs
        }
    };
    rep.note = obs_text(&obs[makers().len().min(obs.len())..].to_vec());
    match compare(&h.forms, &obs) {
        Cmp::Pass => {}
        Cmp::Skip(w) => {
            rep.skipped = Some(w.split(':').next().unwrap_or("").to_string());
            return rep;
        }
        Cmp::Fail { form, sig, detail } => {
            rep.fail(sig, format!("form {} `{}`: {}", form, render_form(&h.forms[form]), detail));
            return rep;
        }
    }
    alias_partition_check(&h, &mut rep);
    rep
}

pub fn run(ctx: &Ctx) {
    ctx.set_rule(
        "random operation histories (4-34 steps quick, up to 64 thorough) evaluated as top-level forms on one interpreter: \
         generator procedures returning closures over one binding (counter, accumulator, two closures over one binding, \
         state in an internal definition), instantiations, calls, set! of globals directly / through a procedure / of a \
         parameter / of a shadowing binding, vectors (vector, make-vector incl. vector-valued fill, literals), aliasing \
         through definitions, identity/selector procedures, lists and other vectors, vector-set! through every access \
         path incl. captured references and literals, probes reading every live variable. Oracle: store model of the \
         reference evaluator (value per form) plus the partition of vector-valued variables into identity classes (Rc \
         addresses) compared with the model's. Non-trivial = a write observed through another access path, or several \
         closures over shared/distinct bindings exercised.",
    );
    let cases = ctx.tier.pick(12_000, 40_000);
    let steps = ctx.tier.pick(30, 60);
    ctx.random("histories", cases, 400, |ch| case(ch, steps));
}
