//! C06 — the reader maps text to the data its tokens denote.
use crate::reflex::{self, LexClass, RKind};
use crate::runner::{Chooser, Ctx, Report, SHARDS};
use crate::sut::{self, guarded, Outcome, SNum, SVal, Session};
use ruschm::parser::{Lexer, Primitive, TokenData};
use std::sync::atomic::{AtomicU64, Ordering};

pub const ALPHABET17: [char; 17] = ['(', ')', '\'', '.', '"', ';', '|', '#', '\\', 'a', '1', '+', '-', '/', 'e', ' ', '\n'];

// ------------------------------------------------------------------------------------
// (b) differential on the lexer

fn slug(reason: &str) -> String {
    let head = reason.split(':').next().unwrap_or(reason);
    head.trim().replace(' ', "-")
}

fn real_kind(t: &TokenData) -> Option<RKind> {
    Some(match t {
        TokenData::Identifier(s) => RKind::Ident(s.clone()),
        TokenData::Primitive(Primitive::Integer(i)) => RKind::Int(*i),
        TokenData::Primitive(Primitive::Rational(a, b)) => RKind::Ratio(*a, *b as i32),
        TokenData::Primitive(Primitive::Real(s)) => RKind::Real(s.clone()),
        TokenData::Primitive(Primitive::String(s)) => RKind::Str(s.clone()),
        TokenData::Primitive(Primitive::Character(c)) => RKind::Char(*c),
        TokenData::Primitive(Primitive::Boolean(b)) => RKind::Bool(*b),
        TokenData::LeftParen => RKind::LParen,
        TokenData::RightParen => RKind::RParen,
        TokenData::VecConsIntro => RKind::VecOpen,
        TokenData::Quote => RKind::Quote,
        TokenData::Period => RKind::Dot,
        _ => return None,
    })
}

fn same_kind(a: &RKind, b: &RKind) -> bool {
    match (a, b) {
        (RKind::Real(x), RKind::Real(y)) => match (x.parse::<f64>(), y.parse::<f64>()) {
            (Ok(p), Ok(q)) => p == q,
            _ => x == y,
        },
        _ => a == b,
    }
}

fn kind_name(k: &RKind) -> &'static str {
    match k {
        RKind::LParen | RKind::RParen | RKind::VecOpen | RKind::Quote | RKind::Dot => "structure",
        RKind::Ident(_) => "identifier",
        RKind::Bool(_) => "boolean",
        RKind::Char(_) => "character",
        RKind::Str(_) => "string",
        RKind::Int(_) => "integer",
        RKind::Ratio(..) => "ratio",
        RKind::Real(_) => "real",
    }
}

pub enum LexObs {
    Ok(Vec<(Option<RKind>, Option<[u32; 2]>)>),
    Err(String),
    Panic(String, String),
}

pub fn run_real_lexer(text: &str) -> LexObs {
    let r = guarded(|| {
        let lx = Lexer::from_char_stream(text.chars());
        lx.collect::<Result<Vec<_>, _>>()
    });
    match r {
        Err((site, msg)) => LexObs::Panic(site, msg),
        Ok(Err(e)) => LexObs::Err(sut::err_info(&e).tag),
        Ok(Ok(toks)) => LexObs::Ok(toks.iter().map(|t| (real_kind(&t.data), t.location)).collect()),
    }
}

/// returns (nontrivial, failure)
pub fn judge_lex(text: &str) -> (bool, Option<(String, String)>, &'static str) {
    let class = reflex::lex(text);
    let obs = run_real_lexer(text);
    if let LexObs::Panic(site, msg) = &obs {
        return (true, Some((sut::panic_sig(site, msg), format!("lexer panicked at {}", site))), "panic");
    }
    // "split into tokens only at delimiters": a token that needs a terminating delimiter must not be
    // followed immediately by a non-delimiter character (checked for every accepted text, whatever its class)
    if let LexObs::Ok(got) = &obs {
        let cs: Vec<char> = text.chars().collect();
        let mut cursors = Vec::with_capacity(cs.len() + 1);
        let (mut line, mut col) = (1u32, 1u32);
        for c in &cs {
            cursors.push([line, col]);
            if *c == '\n' {
                line += 1;
                col = 1;
            } else {
                col += 1;
            }
        }
        for (k, loc) in got {
            let needs = matches!(
                k,
                Some(RKind::Ident(_)) | Some(RKind::Int(_)) | Some(RKind::Ratio(..)) | Some(RKind::Real(_)) | Some(RKind::Bool(_)) | Some(RKind::Char(_)) | Some(RKind::Dot)
            );
            if !needs {
                continue;
            }
            if let Some(end) = loc {
                if let Some(j) = cursors.iter().position(|c| c == end) {
                    if !reflex::is_delimiter(cs[j]) {
                        let cls = match reflex::lex(text) {
                            LexClass::Valid(_) => "valid",
                            LexClass::Invalid(_) => "invalid",
                            LexClass::Unsupported(_) => "unsupported",
                            LexClass::Undefined(_) => "undefined",
                        };
                        return (
                            true,
                            Some((
                                format!("split-without-delimiter:{}", kind_name(k.as_ref().unwrap())),
                                format!("token {:?} ends before {:?}, which is not a delimiter", k.as_ref().unwrap(), cs[j]),
                            )),
                            cls,
                        );
                    }
                }
            }
        }
    }
    match class {
        LexClass::Undefined(_) => (false, None, "undefined"),
        LexClass::Valid(exp) => {
            let nt = exp.len() >= 2;
            match obs {
                LexObs::Ok(got) => {
                    for (i, e) in exp.iter().enumerate() {
                        match got.get(i) {
                            Some((Some(k), loc)) if same_kind(k, &e.kind) => {
                                if *loc != Some(e.end) {
                                    return (
                                        nt,
                                        Some((
                                            format!("token-location:{}", kind_name(&e.kind)),
                                            format!("token {} {:?}: expected end cursor {:?}, lexer reports {:?}", i, e.kind, e.end, loc),
                                        )),
                                        "valid",
                                    );
                                }
                            }
                            other => {
                                return (
                                    nt,
                                    Some((
                                        format!("tokens-differ:{}", kind_name(&e.kind)),
                                        format!("token {}: expected {:?}, lexer produced {:?}", i, e.kind, other.map(|o| &o.0)),
                                    )),
                                    "valid",
                                )
                            }
                        }
                    }
                    if got.len() != exp.len() {
                        return (
                            nt,
                            Some(("tokens-differ:extra".to_string(), format!("expected {} tokens, lexer produced {}", exp.len(), got.len()))),
                            "valid",
                        );
                    }
                    (nt, None, "valid")
                }
                LexObs::Err(tag) => {
                    let first = exp.first().map(|t| kind_name(&t.kind)).unwrap_or("empty");
                    let _ = first;
                    // name the first token class the lexer could not get past
                    (nt, Some((format!("valid-rejected:{}", tag), format!("valid token sequence rejected with {}", tag))), "valid")
                }
                LexObs::Panic(..) => unreachable!(),
            }
        }
        // accepted although not in the supported grammar, without splitting a token: the statement says nothing
        LexClass::Invalid(_) => (false, None, "invalid"),
        LexClass::Unsupported(_) => (false, None, "unsupported"),
    }
}

fn lex_strings(ctx: &Ctx, sub: &str, alpha: &[char], maxlen: u32) {
    if ctx.skip_sub(sub) {
        return;
    }
    if ctx.replay.is_some() {
        ctx.texts(sub, &[], |t| {
            let mut rep = Report::new(format!("{:?}", t));
            let (nt, f, _) = judge_lex(t);
            rep.nontrivial = nt;
            if let Some((s, d)) = f {
                rep.fail(s, d);
            }
            rep
        });
        return;
    }
    let a = alpha.len() as u64;
    let mut total = 0u64;
    for l in 0..=maxlen {
        total += a.pow(l);
    }
    let decode = |mut i: u64| -> String {
        let mut l = 0u32;
        loop {
            let n = a.pow(l);
            if i < n {
                break;
            }
            i -= n;
            l += 1;
        }
        let mut s = String::new();
        for _ in 0..l {
            s.push(alpha[(i % a) as usize]);
            i /= a;
        }
        s
    };
    let nontrivial = AtomicU64::new(0);
    let classes: [AtomicU64; 5] = Default::default();
    let next = AtomicU64::new(0);
    let chunk = 4096u64;
    std::thread::scope(|sc| {
        for _ in 0..SHARDS {
            let (nontrivial, classes, next, decode) = (&nontrivial, &classes, &next, &decode);
            sc.spawn(move || {
                let mut reported = 0;
                loop {
                    let c = next.fetch_add(1, Ordering::SeqCst);
                    if c * chunk >= total {
                        break;
                    }
                    for i in (c * chunk)..((c + 1) * chunk).min(total) {
                        let text = decode(i);
                        let (nt, f, class) = judge_lex(&text);
                        let ci = match class {
                            "valid" => 0,
                            "invalid" => 1,
                            "unsupported" => 2,
                            "undefined" => 3,
                            _ => 4,
                        };
                        classes[ci].fetch_add(1, Ordering::Relaxed);
                        if nt {
                            nontrivial.fetch_add(1, Ordering::Relaxed);
                        }
                        if let Some((sig, detail)) = f {
                            let mut rep = Report::new(format!("{:?}", text));
                            rep.fail(sig, detail);
                            reported += 1;
                            if reported < 2000 {
                                ctx.bulk_fail(sub, &text, &rep);
                            } else {
                                for f in &rep.fails {
                                    if !ctx.count_known(&f.sig, 1) {
                                        ctx.bulk_fail(sub, &text, &rep);
                                    }
                                }
                            }
                        }
                    }
                }
            });
        }
    });
    let names = ["valid", "invalid", "unsupported", "undefined", "panic"];
    for (i, n) in names.iter().enumerate() {
        ctx.count_label(&format!("{}:{}", sub, n), classes[i].load(Ordering::SeqCst));
    }
    ctx.bulk(
        sub,
        total,
        nontrivial.load(Ordering::SeqCst),
        vec![serde_json::json!({"alphabet": alpha.iter().collect::<String>(), "max_length": maxlen,
            "examples": ["(a .1)", "'#\\a;", "1/1e", "|a|+", "-1.e1"]})],
        true,
    );
}

// ------------------------------------------------------------------------------------
// (a) round trip from trees

#[derive(Clone, Debug)]
pub enum Tree {
    Atom(String, SVal, &'static str),
    List(Vec<Tree>, Option<Box<Tree>>),
    Vector(Vec<Tree>),
    Quote(Box<Tree>),
}

const IDENTS: &[&str] = &[
    "a", "b", "foo", "x1", "list->vector", "set!", "+", "-", "...", "->", "+a", "-a", "..a", ".a", "<=?", "a.b", "A", "!x",
    "$%&*/:<=>?^_~", "a+b-c", "-", "--", "+-", "...x", "e1", "e",
];
const BAR_IDENTS: &[&str] = &["a b", "(", ")", "hello world", ";x", "\"", "1", "", "a.b", "#t", "'"];

fn gen_atom(ch: &mut Chooser) -> Tree {
    match ch.below(12) {
        0 | 1 => {
            let s = *ch.pick(IDENTS);
            Tree::Atom(s.to_string(), SVal::Sym(s.to_string()), "identifier")
        }
        2 => {
            let s = *ch.pick(BAR_IDENTS);
            Tree::Atom(format!("|{}|", s), SVal::Sym(s.to_string()), "bar-identifier")
        }
        3 => {
            let b = ch.chance(1, 2);
            Tree::Atom(if b { "#t" } else { "#f" }.to_string(), SVal::Bool(b), "boolean")
        }
        4 => {
            let c = *ch.pick(&['a', 'Z', '0', '(', ')', ';', '"', '#', '|', '\'', 'x', 't', 'n', '\\', '.', ' ', ' ', '\t']);
            Tree::Atom(format!("#\\{}", c), SVal::Char(c), "character")
        }
        5 | 6 => {
            // string with escapes
            let n = ch.below(6);
            let mut text = String::from("\"");
            let mut val = String::new();
            for _ in 0..n {
                match ch.below(14) {
                    0 => {
                        text.push_str("\\a");
                        val.push('\u{7}')
                    }
                    1 => {
                        text.push_str("\\b");
                        val.push('\u{8}')
                    }
                    2 => {
                        text.push_str("\\t");
                        val.push('\t')
                    }
                    3 => {
                        text.push_str("\\n");
                        val.push('\n')
                    }
                    4 => {
                        text.push_str("\\r");
                        val.push('\r')
                    }
                    5 => {
                        text.push_str("\\\"");
                        val.push('"')
                    }
                    6 => {
                        text.push_str("\\\\");
                        val.push('\\')
                    }
                    7 => {
                        text.push_str("\\|");
                        val.push('|')
                    }
                    8 => {
                        let c = *ch.pick(&['(', ')', ';', '\'', '#', '|', ' ']);
                        text.push(c);
                        val.push(c)
                    }
                    10 => {
                        // hexadecimal scalar value escapes, digits in either case
                        let (t, c) = *ch.pick(&[("\\x41;", 'A'), ("\\x3BB;", 'λ'), ("\\x3bb;", 'λ'), ("\\xE9;", 'é'), ("\\x1F600;", '😀'), ("\\x0a;", '\n'), ("\\x7C;", '|')]);
                        text.push_str(t);
                        val.push(c)
                    }
                    9 => {
                        // the literal continues on the next line, possibly with blanks before the line break
                        let c = *ch.pick(&["\n", " \n", "\t\n", "  \n ", "\n\n"]);
                        text.push_str(c);
                        val.push_str(c)
                    }
                    _ => {
                        let c = *ch.pick(&['a', 'b', 'x', '1', 'Z', 'e']);
                        text.push(c);
                        val.push(c)
                    }
                }
            }
            text.push('"');
            Tree::Atom(text, SVal::Str(val), "string")
        }
        7 | 8 => {
            let v: i32 = match ch.below(4) {
                0 => ch.range(-9, 9) as i32,
                1 => *ch.pick(&[i32::MAX, i32::MIN, 0, 65536, -32768, 1000000]),
                2 => ch.range(i32::MIN as i64, i32::MAX as i64) as i32,
                _ => ch.range(-1000, 1000) as i32,
            };
            let plus = v >= 0 && ch.chance(1, 5);
            let lead0 = ch.chance(1, 8);
            let body = if lead0 { format!("00{}", v.unsigned_abs()) } else { format!("{}", v.unsigned_abs()) };
            let text = format!("{}{}", if v < 0 { "-" } else if plus { "+" } else { "" }, body);
            Tree::Atom(text, SVal::Num(SNum::Int(v)), "integer")
        }
        9 => {
            let a = ch.range(-200, 200) as i32;
            let b = ch.range(1, 60) as i32;
            let plus = a >= 0 && ch.chance(1, 5);
            let text = format!("{}{}/{}", if plus { "+" } else { "" }, a, b);
            Tree::Atom(text, SVal::Num(SNum::Rat(a, b)), "ratio")
        }
        10 if ch.chance(1, 3) => {
            let (text, bits) = near_midpoint_literal(ch);
            Tree::Atom(text, SVal::Num(SNum::Real(bits)), "real")
        }
        _ => {
            // decimals: d+.d*[e±d+] | d+e±d+ | ±.d+
            let sign = *ch.pick(&["", "", "-", "+"]);
            let int = ch.below(1000);
            let frac = ch.below(1000);
            let text = match ch.below(6) {
                0 => format!("{}{}.{}", sign, int, frac),
                1 => format!("{}{}.", sign, int),
                2 => format!("{}{}.{}e{}", sign, int, frac, ch.range(-20, 20)),
                3 => format!("{}{}e{}", sign, int, ch.range(-20, 20)),
                4 => format!("{}{}e+{}", sign, int, ch.below(20)),
                _ => format!("{}.{}", if sign.is_empty() { "+" } else { sign }, frac),
            };
            let v: f32 = text.parse::<f32>().unwrap();
            Tree::Atom(text, SVal::Num(SNum::Real(v.to_bits())), "real")
        }
    }
}

/// a long decimal literal just above, just below or exactly on the midpoint of two adjacent binary32 values; the
/// binary32 it denotes is known by construction (no decimal-to-binary conversion is used as the oracle)
pub fn near_midpoint_literal(ch: &mut Chooser) -> (String, u32) {
    // magnitudes between 2^-12 and 2^24: the exact decimal expansion of the midpoint fits in 64 fractional digits
    let exp = 115 + ch.below(36) as u32;
    let mant = match ch.below(4) {
        0 => 0,
        1 => 0x7f_ffff - ch.below(3) as u32,
        _ => ch.range(0, 0x7f_ffff) as u32,
    };
    let lo_bits = (exp << 23) | mant;
    let (lo, hi) = (f32::from_bits(lo_bits), f32::from_bits(lo_bits + 1));
    let mid = (lo as f64 + hi as f64) / 2.0; // exact: 25 significant bits
    let digits = format!("{:.70}", mid);
    let digits = digits.trim_end_matches('0').to_string();
    debug_assert!(digits.contains('.') && !digits.ends_with('.'));
    let (body, value) = match ch.below(3) {
        0 => (format!("{}1", digits), hi),
        1 => {
            // last digit d (non-zero) becomes d-1 followed by 9...: slightly less than the midpoint
            let (head, last) = digits.split_at(digits.len() - 1);
            let d = last.chars().next().unwrap().to_digit(10).unwrap();
            (format!("{}{}9999", head, d - 1), lo)
        }
        _ => (digits.clone(), if lo_bits & 1 == 0 { lo } else { hi }),
    };
    let neg = ch.chance(1, 3);
    let text = if neg { format!("-{}", body) } else { body };
    (text, if neg { (-value).to_bits() } else { value.to_bits() })
}

fn gen_tree(ch: &mut Chooser, depth: u32) -> Tree {
    if depth == 0 || !ch.chance(1, 2) {
        return gen_atom(ch);
    }
    let n = ch.below(7);
    match ch.below(6) {
        0 => Tree::Vector((0..n).map(|_| gen_tree(ch, depth - 1)).collect()),
        1 if n > 0 => {
            let items = (0..n).map(|_| gen_tree(ch, depth - 1)).collect();
            let tail = gen_tree(ch, depth - 1);
            Tree::List(items, Some(Box::new(tail)))
        }
        2 => Tree::Quote(Box::new(gen_tree(ch, depth - 1))),
        _ => Tree::List((0..n).map(|_| gen_tree(ch, depth - 1)).collect(), None),
    }
}

pub fn tree_value(t: &Tree) -> SVal {
    match t {
        Tree::Atom(_, v, _) => v.clone(),
        Tree::List(items, tail) => {
            let iv: Vec<SVal> = items.iter().map(tree_value).collect();
            match tail {
                None => SVal::list(iv),
                Some(t) => SVal::list_tail(iv, tree_value(t)),
            }
        }
        Tree::Vector(items) => SVal::Vector { id: 0, mutable: false, items: items.iter().map(tree_value).collect() },
        Tree::Quote(inner) => SVal::list(vec![SVal::Sym("quote".into()), tree_value(inner)]),
    }
}

fn tokens_of(t: &Tree, out: &mut Vec<(String, &'static str)>) {
    match t {
        Tree::Atom(s, _, k) => out.push((s.clone(), k)),
        Tree::List(items, tail) => {
            out.push(("(".into(), "paren"));
            for i in items {
                tokens_of(i, out);
            }
            if let Some(t) = tail {
                out.push((".".into(), "dot"));
                tokens_of(t, out);
            }
            out.push((")".into(), "paren"));
        }
        Tree::Vector(items) => {
            out.push(("#(".into(), "paren"));
            for i in items {
                tokens_of(i, out);
            }
            out.push((")".into(), "paren"));
        }
        Tree::Quote(inner) => {
            out.push(("'".into(), "quote"));
            tokens_of(inner, out);
        }
    }
}

const SEPS: &[&str] = &[
    " ", "  ", "\t", "\n", "\r\n", "\r", " ; comment ( \" |\n", ";\r", "\n\n  ", " \t ",
    // comments that follow a blank, ended by each kind of line break
    " ;c\r", "\t; x ( \r ", "  ; y\r\n", "\n ; z\r",
];

/// may two tokens be written without anything between them?
fn adjacency_ok(left: &(String, &'static str), right: &(String, &'static str)) -> bool {
    let l = left.0.as_str();
    let r = right.0.as_str();
    // self-terminating tokens on the left
    if l == "(" || l == "#(" || l == "'" || l == ")" || left.1 == "string" {
        return true;
    }
    // tokens that start with a delimiter character on the right
    r == "(" || r == ")" || right.1 == "string" || right.1 == "bar-identifier"
}

fn render(ch: &mut Chooser, toks: &[(String, &'static str)], tight: bool) -> (String, u32) {
    let mut out = String::new();
    let mut adjacencies = 0;
    for (i, t) in toks.iter().enumerate() {
        if i > 0 {
            let can = adjacency_ok(&toks[i - 1], t);
            let want_empty = can && (tight || ch.chance(1, 2));
            if want_empty {
                adjacencies += 1;
            } else {
                out.push_str(*ch.pick(SEPS));
            }
        }
        out.push_str(&t.0);
    }
    (out, adjacencies)
}

fn contains_nested_quote(t: &Tree, under: bool) -> bool {
    match t {
        Tree::Atom(..) => false,
        Tree::Quote(i) => under || contains_nested_quote(i, true),
        Tree::List(items, tail) => items.iter().any(|i| contains_nested_quote(i, under)) || tail.as_ref().map(|t| contains_nested_quote(t, under)).unwrap_or(false),
        Tree::Vector(items) => items.iter().any(|i| contains_nested_quote(i, true)),
    }
}

thread_local! {
    static EVAL: std::cell::RefCell<Option<Session>> = const { std::cell::RefCell::new(None) };
}

fn eval_quote(text: &str) -> Outcome {
    EVAL.with(|c| {
        let mut c = c.borrow_mut();
        if c.is_none() {
            *c = Some(Session::stdlib().expect("stdlib"));
        }
        c.as_mut().unwrap().eval(text)
    })
}

fn eval_quote_file(text: &str) -> Outcome {
    let dir = std::env::temp_dir().join(format!("rv-c06-{}-{:?}", std::process::id(), std::thread::current().id()));
    let _ = std::fs::create_dir_all(&dir);
    let file = dir.join("datum.scm");
    std::fs::write(&file, text).unwrap();
    let o = EVAL.with(|c| {
        let mut c = c.borrow_mut();
        if c.is_none() {
            *c = Some(Session::stdlib().expect("stdlib"));
        }
        c.as_mut().unwrap().eval_file(&file)
    });
    let _ = std::fs::remove_dir_all(&dir);
    o
}

fn tree_case(ch: &mut Chooser) -> Report {
    let depth = ch.below(6) as u32;
    let tree = gen_tree(ch, depth);
    let expected = tree_value(&tree);
    let mut toks = vec![];
    tokens_of(&tree, &mut toks);
    let (t1, adj1) = render(ch, &toks, false);
    let tight = ch.chance(1, 2);
    let (t2, _) = render(ch, &toks, tight);
    let mut classes: Vec<&str> = toks.iter().map(|t| t.1).filter(|k| *k != "paren").collect();
    classes.sort();
    classes.dedup();
    let mut rep = Report::new(format!("'{}", t1));
    rep.nontrivial = classes.len() >= 3 && adj1 >= 1;
    for c in &classes {
        rep.label(format!("class:{}", c));
    }
    let o1 = eval_quote(&format!("'{}", t1));
    let o2 = eval_quote(&format!("'{}", t2));
    rep.note = o1.show();
    let nested_quote = contains_nested_quote(&tree, true);
    let judge = |o: &Outcome, text: &str, rep: &mut Report| match o {
        Outcome::Value(v) if v.equiv(&expected) => {}
        Outcome::Panic { site, msg } => rep.fail(sut::panic_sig(site, msg), format!("reading {:?} panicked", text)),
        other => {
            let sig = if nested_quote {
                "nested-quote-abbrev".to_string()
            } else {
                match other {
                    Outcome::Error(e) => format!("tree-rejected:{}", e.tag),
                    _ => "tree-differs".to_string(),
                }
            };
            rep.fail(sig, format!("text {:?}: expected {}, got {}", text, expected.show(), other.show()));
        }
    };
    judge(&o1, &t1, &mut rep);
    // a ratio literal that is not in lowest terms denotes the same number as the reduced one: eqv?, not merely =
    if rep.fails.is_empty() {
        if let Some((text, a, b)) = toks.iter().find_map(|t| {
            if t.1 != "ratio" {
                return None;
            }
            let (n, d) = t.0.trim_start_matches('+').split_once('/')?;
            Some((t.0.clone(), n.parse::<i64>().ok()?, d.parse::<i64>().ok()?))
        }) {
            fn gcd(a: i64, b: i64) -> i64 {
                if b == 0 {
                    a.abs()
                } else {
                    gcd(b, a % b)
                }
            }
            let g = gcd(a, b).max(1);
            if g > 1 || b == 1 {
                let reduced = if b / g == 1 { format!("{}", a / g) } else { format!("{}/{}", a / g, b / g) };
                let probe = format!("(eqv? {} {})", text, reduced);
                match eval_quote(&probe) {
                    Outcome::Value(SVal::Bool(true)) => {}
                    other => rep.fail("ratio-literal-not-eqv-to-its-reduced-form", format!("{} = {}", probe, other.show())),
                }
                rep.label("reducible-ratio-literal");
            }
        }
    }
    if rep.fails.is_empty() && ch.chance(1, 5) {
        // the same text read from a program file (src/io.rs re-assembles it line by line)
        rep.label("read-from-file");
        let o3 = eval_quote_file(&format!("'{}", t1));
        let before = rep.fails.len();
        judge(&o3, &t1, &mut rep);
        for f in rep.fails.iter_mut().skip(before) {
            f.sig = format!("from-file:{}", f.sig);
        }
    }
    if rep.fails.is_empty() {
        judge(&o2, &t2, &mut rep);
        if rep.fails.is_empty() && o1 != o2 {
            // both equal the expectation up to equivalence; identical trees must give identical values
            if let (Outcome::Value(a), Outcome::Value(b)) = (&o1, &o2) {
                if !a.equiv(b) {
                    rep.fail("layout-dependent", format!("{:?} and {:?} read differently", t1, t2));
                }
            }
        }
    }
    rep
}

pub fn run(ctx: &Ctx) {
    ctx.set_rule(
        "(a) random datum trees (depth <= 5, width <= 6) over every supported token class, rendered twice with random \
         inter-token layout (nothing where the grammar permits adjacency, blanks, tabs, CR, LF, CRLF, comments), \
         evaluated as 'TEXT and compared with the tree (and with each other), a fifth of them also read from a program \
         file; character literals include #\\space/#\\tab written with the raw character, strings continue over line breaks, \
         decimals include long literals just above / below / on the midpoint of two adjacent binary32 values; non-trivial = >= 3 token classes and >= 1 \
         adjacency without whitespace. (b) every string up to length 5 (thorough 6) over a 17-character alphabet: \
         the real Lexer against an independent reference tokenizer that classifies the string Valid(tokens) / Invalid / \
         Unsupported / Undefined; non-trivial = >= 2 tokens, or an Invalid/Unsupported string the lexer accepted.",
    );
    ctx.assume("the reference tokenizer (reflex.rs, written from R7RS 7.1.1 restricted to the supported grammar) is trusted; it has its own unit tests");
    let cases = ctx.tier.pick(40_000, 200_000);
    ctx.random("trees", cases, 400, tree_case);
    // regression inputs and witnesses
    let w: Vec<String> = LEX_WITNESSES.iter().map(|s| s.to_string()).collect();
    ctx.texts("lex-witness", &w, |t| {
        let mut rep = Report::new(format!("{:?}", t));
        let (nt, f, _) = judge_lex(t);
        rep.nontrivial = nt || true;
        if let Some((s, d)) = f {
            rep.fail(s, d);
        }
        rep
    });
    let maxlen = ctx.tier.pick(5, 6);
    lex_strings(ctx, "lex-strings", &ALPHABET17, maxlen);
}

pub const LEX_WITNESSES: &[&str] = &[
    "#true", "#false", "#\\space", "#t#f", "#ta", "#\\ab", "\"\\x41;\"", "''a", "'(a 'b)", "'#('a)", ",", "`a", "|a|b", "1/2a",
    "1/2/3", "1.5.2", "1e5e", "1e+", "+.5", "-.5e2", "1.e2", ".5", "+.a", "1/0", "2147483648", "-2147483649", "1/2147483648",
    "a'b", "a#b", "1'", "(a . b)", "(a .b)", "(a.b)", "( . )", "#(1 2)", "#( )", "a;b\nc", "a;b\rc", "\"a\nb\"", "|a\nb|", "#\\\n",
    "1 2\r\n3", "-", "+", "...", "..", ".", "-a", "--", "-1a", "+1", "1+", "1-", "a1", "#f(", "#t)", "#\\()", "|a||b|", "\"a\"\"b\"",
    "\"a\"b", "a\"b\"", "a|b|", "1\"b\"", "1|b|", "1(", "a(", "1e5(", "1/2(", "1.5\"x\"", "#\\a\"", "#t\"", "#t|a|", "#t;c",
];
