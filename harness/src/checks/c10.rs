//! C10 — numeric comparison is the mathematical order.
use crate::checks::c09::with_ns;
use crate::numgrid::{canonical, outcome_num, random_opnd, NumSession, Opnd};
use crate::refnum::{conv_candidates, same_f32, RNum};
use crate::runner::{Chooser, Ctx, Report};
use crate::sut::{self, Outcome, SNum, SVal};
use std::cmp::Ordering;

pub const PREDS: [&str; 5] = ["=", "<", ">", "<=", ">="];

fn holds(p: &str, o: Option<Ordering>) -> bool {
    match (p, o) {
        (_, None) => false,
        ("=", Some(o)) => o == Ordering::Equal,
        ("<", Some(o)) => o == Ordering::Less,
        (">", Some(o)) => o == Ordering::Greater,
        ("<=", Some(o)) => o != Ordering::Greater,
        (">=", Some(o)) => o != Ordering::Less,
        _ => unreachable!(),
    }
}

/// admissible orderings of a pair (a set: the conversion of an exact operand has two admissible roundings)
fn pair_orderings(a: &Opnd, b: &Opnd) -> Vec<Option<Ordering>> {
    if a.r.is_exact() && b.r.is_exact() {
        return vec![Some(a.r.cmp_exact(b.r))];
    }
    let mut out = vec![];
    for x in conv_candidates(&a.snum) {
        for y in conv_candidates(&b.snum) {
            let o = x.partial_cmp(&y);
            if !out.contains(&o) {
                out.push(o);
            }
        }
    }
    out
}

/// set of admissible truth values of (p a1 a2 ... an) = conjunction of adjacent pairs
fn expected_pred(p: &str, args: &[&Opnd]) -> Vec<bool> {
    let mut cur = vec![true];
    for w in args.windows(2) {
        let os = pair_orderings(w[0], w[1]);
        let mut next = vec![];
        for c in &cur {
            for o in &os {
                let v = *c && holds(p, *o);
                if !next.contains(&v) {
                    next.push(v);
                }
            }
        }
        cur = next;
    }
    cur
}

fn judge_pred_once(obs: &Outcome, p: &str, args: &[&Opnd]) -> Option<(String, String)> {
    if let Outcome::Panic { site, msg } = obs {
        return Some((sut::panic_sig(site, msg), format!("panic at {}", site)));
    }
    let exp = expected_pred(p, args);
    match obs {
        Outcome::Value(SVal::Bool(b)) if exp.contains(b) => None,
        other => Some((format!("wrong-order:{}", p), format!("expected {:?}, got {}", exp, other.show()))),
    }
}

fn judge_minmax_once(obs: &Outcome, name: &str, args: &[&Opnd]) -> Option<(String, String)> {
    if let Outcome::Panic { site, msg } = obs {
        return Some((sut::panic_sig(site, msg), format!("panic at {}", site)));
    }
    if args.iter().any(|o| matches!(o.r, RNum::Re(x) if x.is_nan())) {
        return None;
    }
    let any_inexact = args.iter().any(|o| !o.r.is_exact());
    let want_max = name == "max";
    let n = match outcome_num(obs) {
        Some(n) => n,
        None => return Some((format!("minmax-no-number:{}", name), obs.show())),
    };
    if !any_inexact {
        let mut best = args[0].r;
        for o in &args[1..] {
            let c = o.r.cmp_exact(best);
            if (want_max && c == Ordering::Greater) || (!want_max && c == Ordering::Less) {
                best = o.r;
            }
        }
        if !n.is_exact() {
            return Some((format!("minmax-inexact-from-exact:{}", name), format!("expected exact {}, got {}", best.show(), n.show())));
        }
        return match RNum::of(&n) {
            Some(v) if v == best => None,
            _ => Some((format!("minmax-wrong:{}", name), format!("expected {}, got {}", best.show(), n.show()))),
        };
    }
    // some argument inexact: result must be inexact and equal to the extreme of the converted arguments
    let x = match n {
        SNum::Real(bits) => f32::from_bits(bits),
        other => return Some((format!("minmax-contagion-lost:{}", name), format!("inexact argument but exact result {}", other.show()))),
    };
    // candidate extremes over all admissible conversions
    let convs: Vec<Vec<f32>> = args.iter().map(|o| conv_candidates(&o.snum)).collect();
    let mut cands: Vec<f32> = vec![];
    let mut idx = vec![0usize; args.len()];
    loop {
        let vals: Vec<f32> = idx.iter().enumerate().map(|(i, k)| convs[i][*k]).collect();
        let mut best = vals[0];
        for v in &vals[1..] {
            if (want_max && *v > best) || (!want_max && *v < best) {
                best = *v;
            }
        }
        cands.push(best);
        // also the extreme decided on exact values first (mathematical order), then converted
        let mut k = 0;
        loop {
            if k == idx.len() {
                break;
            }
            idx[k] += 1;
            if idx[k] < convs[k].len() {
                break;
            }
            idx[k] = 0;
            k += 1;
        }
        if k == idx.len() {
            break;
        }
    }
    if cands.iter().any(|c| same_f32(*c, x) || (*c == 0.0 && x == 0.0)) {
        None
    } else {
        Some((format!("minmax-wrong:{}", name), format!("expected one of {:?}, got {:?}", cands, x)))
    }
}

fn judge_eqv_once(obs: &Outcome, a: &Opnd, b: &Opnd) -> Option<(String, String)> {
    if let Outcome::Panic { site, msg } = obs {
        return Some((sut::panic_sig(site, msg), format!("panic at {}", site)));
    }
    let exp = match (a.r, b.r) {
        (RNum::Ex(..), RNum::Ex(..)) => a.r == b.r,
        (RNum::Re(x), RNum::Re(y)) => {
            if x.is_nan() || y.is_nan() {
                return None;
            }
            // the property asks for numerical equality: 0.0 and -0.0 are eqv? (r7rs leaves that open)
            x == y
        }
        _ => false,
    };
    match obs {
        Outcome::Value(SVal::Bool(v)) if *v == exp => None,
        other => Some(("wrong-eqv".to_string(), format!("expected {}, got {}", exp, other.show()))),
    }
}

fn noncanon(args: &[&Opnd]) -> bool {
    args.iter().any(|o| !o.canonical)
}

fn with_attribution(
    ns: &NumSession,
    rep: &mut Report,
    proc_name: &str,
    args: &[&Opnd],
    first: Option<(String, String)>,
    rejudge: &dyn Fn(&Outcome, &[&Opnd]) -> Option<(String, String)>,
) {
    if let Some((sig, detail)) = first {
        if !sig.starts_with("panic@") && noncanon(args) {
            let canon: Vec<Option<Opnd>> = args.iter().map(|o| if o.canonical { Some((*o).clone()) } else { canonical(o) }).collect();
            if canon.iter().all(|c| c.is_some()) {
                let cv: Vec<Opnd> = canon.into_iter().map(|c| c.unwrap()).collect();
                let refs: Vec<&Opnd> = cv.iter().collect();
                let p = ns.proc_named(proc_name);
                let obs2 = ns.apply(&p, &refs);
                if rejudge(&obs2, &refs).is_none() {
                    rep.fail(format!("noncanonical-operand:{}", sig), format!("{} (passes with canonical operands)", detail));
                    return;
                }
            }
        }
        rep.fail(sig, detail);
    }
}

fn nontrivial(args: &[&Opnd]) -> bool {
    // different internal representations, or close values
    let kinds: Vec<u8> = args
        .iter()
        .map(|o| match o.snum {
            SNum::Int(_) => 0,
            SNum::Rat(..) => 1,
            SNum::Real(_) => 2,
        })
        .collect();
    if kinds.windows(2).any(|w| w[0] != w[1]) {
        return true;
    }
    args.windows(2).any(|w| {
        let (x, y) = (w[0].r.to_f32() as f64, w[1].r.to_f32() as f64);
        x != y && (x - y).abs() <= 1e-3 * x.abs().max(y.abs())
    }) || args.iter().any(|o| !o.canonical)
}

pub fn judge_pred(ns: &NumSession, p: &str, args: &[&Opnd]) -> Report {
    let mut rep = Report::new(format!("({} {})", p, args.iter().map(|o| o.text.as_str()).collect::<Vec<_>>().join(" ")));
    let pr = ns.proc_named(p);
    let obs = ns.apply(&pr, args);
    rep.note = obs.show();
    rep.nontrivial = nontrivial(args);
    let first = judge_pred_once(&obs, p, args);
    with_attribution(ns, &mut rep, p, args, first, &|o, a| judge_pred_once(o, p, a));
    rep
}

pub fn judge_minmax(ns: &NumSession, name: &str, args: &[&Opnd]) -> Report {
    let mut rep = Report::new(format!("({} {})", name, args.iter().map(|o| o.text.as_str()).collect::<Vec<_>>().join(" ")));
    let pr = ns.proc_named(name);
    let obs = ns.apply(&pr, args);
    rep.note = obs.show();
    rep.nontrivial = nontrivial(args);
    let first = judge_minmax_once(&obs, name, args);
    let passed = first.is_none();
    with_attribution(ns, &mut rep, name, args, first, &|o, a| judge_minmax_once(o, name, a));
    if passed && args.iter().all(|o| o.r.is_exact() && o.canonical) {
        // second observation path: the returned number is eqv? to the extreme argument (same exactness, same value)
        let want_max = name == "max";
        let mut best = args[0];
        for o in &args[1..] {
            let c = o.r.cmp_exact(best.r);
            if (want_max && c == Ordering::Greater) || (!want_max && c == Ordering::Less) {
                best = o;
            }
        }
        if let Some(v) = ns.apply_raw(&pr, args.iter().map(|o| o.val.clone()).collect()) {
            let eqv = ns.proc_named("eqv?");
            match ns.apply_raw(&eqv, vec![v, best.val.clone()].into_iter().collect()) {
                Some(ruschm::values::Value::Boolean(true)) => {}
                other => rep.fail(
                    format!("minmax-result-not-eqv-to-extreme:{}", name),
                    format!("(eqv? ({} {}) {}) = {:?}", name, args.iter().map(|o| o.text.as_str()).collect::<Vec<_>>().join(" "), best.text, other.map(|v| v.to_string())),
                ),
            }
        }
    }
    rep
}

pub fn judge_eqv(ns: &NumSession, a: &Opnd, b: &Opnd) -> Report {
    let mut rep = Report::new(format!("(eqv? {} {})", a.text, b.text));
    let pr = ns.proc_named("eqv?");
    let obs = ns.apply(&pr, &[a, b]);
    rep.note = obs.show();
    rep.nontrivial = nontrivial(&[a, b]);
    let first = judge_eqv_once(&obs, a, b);
    with_attribution(ns, &mut rep, "eqv?", &[a, b], first, &|o, x| judge_eqv_once(o, x[0], x[1]));
    rep
}

/// order laws on exact grid values, independent of the model: trichotomy, transitivity, <= decomposition
fn law_report(ns: &NumSession, a: &Opnd, b: &Opnd, c: &Opnd) -> Report {
    let mut rep = Report::new(format!("laws {} {} {}", a.text, b.text, c.text));
    let ask = |p: &str, x: &Opnd, y: &Opnd| -> Option<bool> {
        let pr = ns.proc_named(p);
        match ns.apply(&pr, &[x, y]) {
            Outcome::Value(SVal::Bool(v)) => Some(v),
            _ => None,
        }
    };
    rep.nontrivial = true;
    let (lt, eq, gt) = (ask("<", a, b), ask("=", a, b), ask(">", a, b));
    if let (Some(lt), Some(eq), Some(gt)) = (lt, eq, gt) {
        if (lt as u8 + eq as u8 + gt as u8) != 1 {
            rep.fail("law-trichotomy", format!("<:{} =:{} >:{}", lt, eq, gt));
        }
        if let Some(le) = ask("<=", a, b) {
            if le != (lt || eq) {
                rep.fail("law-le-decomposition", format!("<=:{} <:{} =:{}", le, lt, eq));
            }
        }
        if let (Some(bc), Some(ac)) = (ask("<", b, c), ask("<", a, c)) {
            if lt && bc && !ac {
                rep.fail("law-transitivity", "a<b and b<c but not a<c".to_string());
            }
        }
    } else {
        rep.skipped = Some("law-operands-raise".into());
    }
    rep
}

pub fn run(ctx: &Ctx) {
    ctx.set_rule(
        "predicates = < > <= >= over every ordered pair and every ordered triple (quick: strided sample of triples) of \
         the numeric grid (literals and values produced by arithmetic, so every representation meets every other), \
         max/min over pairs and triples (value and exactness, and as a second observation path the result must be eqv? \
         to the extreme argument), eqv? over pairs, order laws (trichotomy, transitivity, <= decomposition) on \
         exact values, plus random operands built as values (a quarter of them a ratio with the binary32 number it converts to or one of that number's neighbours). Oracle: i128 cross-multiplication for exact operands, \
         binary32 comparison after conversion for mixed ones. Non-trivial = operands with different internal \
         representations, non-canonical representations, or values closer than 1/1000 relative.",
    );
    ctx.assume("eqv? on NaN is not judged; max/min with NaN is not judged");
    let n = with_ns(|_, g| g.len()) as u64;
    ctx.indexed("pred-pairs", 5 * n * n, 1, |i| {
        Some(with_ns(|ns, g| {
            let p = PREDS[(i / (n * n)) as usize];
            let r = i % (n * n);
            judge_pred(ns, p, &[&g[(r / n) as usize], &g[(r % n) as usize]])
        }))
    });
    let stride = ctx.tier.pick(3, 1);
    ctx.indexed("pred-triples", 5 * n * n * n, stride, |i| {
        Some(with_ns(|ns, g| {
            let p = PREDS[(i / (n * n * n)) as usize];
            let r = i % (n * n * n);
            judge_pred(ns, p, &[&g[(r / (n * n)) as usize], &g[((r / n) % n) as usize], &g[(r % n) as usize]])
        }))
    });
    ctx.indexed("minmax-pairs", 2 * n * n, 1, |i| {
        Some(with_ns(|ns, g| {
            let name = if i / (n * n) == 0 { "max" } else { "min" };
            let r = i % (n * n);
            judge_minmax(ns, name, &[&g[(r / n) as usize], &g[(r % n) as usize]])
        }))
    });
    let stride = ctx.tier.pick(4, 1);
    ctx.indexed("minmax-triples", 2 * n * n * n, stride, |i| {
        Some(with_ns(|ns, g| {
            let name = if i / (n * n * n) == 0 { "max" } else { "min" };
            let r = i % (n * n * n);
            judge_minmax(ns, name, &[&g[(r / (n * n)) as usize], &g[((r / n) % n) as usize], &g[(r % n) as usize]])
        }))
    });
    ctx.indexed("eqv-pairs", n * n, 1, |i| Some(with_ns(|ns, g| judge_eqv(ns, &g[(i / n) as usize], &g[(i % n) as usize]))));
    let stride = ctx.tier.pick(2, 1);
    ctx.indexed("laws", n * n * n, stride, |i| {
        with_ns(|ns, g| {
            let (a, b, c) = (&g[(i / (n * n)) as usize], &g[((i / n) % n) as usize], &g[(i % n) as usize]);
            if a.r.is_exact() && b.r.is_exact() && c.r.is_exact() {
                Some(law_report(ns, a, b, c))
            } else {
                None
            }
        })
    });
    let cases = ctx.tier.pick(150_000, 1_500_000);
    ctx.random("random", cases, 24, |ch| random_case(ch));
}

/// a non-integer ratio next to the binary32 number it converts to, and that number's two neighbours
fn ratio_and_image(ch: &mut Chooser) -> Vec<Opnd> {
    use ruschm::values::{Number, Value};
    let d = ch.range(2, 64) as i32;
    let mut n = ch.range(-200, 200) as i32;
    if n % d == 0 {
        n += 1;
    }
    let ratio = crate::numgrid::value_of(crate::refnum::ex(n as i128, d as i128)).unwrap();
    let text = match &ratio {
        Value::Number(x) => format!("{}", x),
        _ => unreachable!(),
    };
    let a = crate::numgrid::opnd_of(text, ratio).unwrap();
    let image = match conv_candidates(&a.snum).first() {
        Some(x) => *x,
        None => n as f32 / d as f32,
    };
    let near = match ch.below(4) {
        0 => f32::from_bits(image.to_bits() + 1),
        1 => f32::from_bits(image.to_bits() - 1),
        _ => image,
    };
    let b = crate::numgrid::opnd_of(format!("{}", near), Value::Number(Number::Real(near))).unwrap();
    let mut v = if ch.chance(1, 2) { vec![a, b] } else { vec![b, a] };
    if ch.chance(1, 3) {
        let again = v[0].clone();
        v.push(again);
    }
    v
}

fn random_case(ch: &mut Chooser) -> Report {
    let arity = 2 + ch.below(2);
    let mut ops: Vec<Opnd> = vec![];
    if ch.chance(1, 4) {
        ops = ratio_and_image(ch);
    }
    let arity = if ops.is_empty() { arity } else { 0 };
    for _ in 0..arity {
        // bias towards near-equal operands: reuse or perturb a previous one
        if !ops.is_empty() && ch.chance(1, 3) {
            let prev = ops[ch.below(ops.len())].clone();
            ops.push(prev);
        } else {
            ops.push(random_opnd(ch));
        }
    }
    let refs: Vec<&Opnd> = ops.iter().collect();
    let kind = ch.below(8);
    with_ns(|ns, _| match kind {
        0..=4 => judge_pred(ns, PREDS[kind], &refs),
        5 => judge_minmax(ns, "max", &refs),
        6 => judge_minmax(ns, "min", &refs),
        _ => judge_eqv(ns, refs[0], refs[1]),
    })
}
