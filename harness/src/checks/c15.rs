//! C15 — reported error locations point into the form that failed.
use crate::ast::*;
use crate::faults::{fault_form_with, prelude, CONTEXTS_C08, KINDS};
use crate::gen::{Gen, GenCfg};
use crate::runner::{Chooser, Ctx, Report};
use crate::sut::{self, Outcome, Session};

pub struct LaidProgram {
    pub text: String,
    /// extent of every top-level form
    pub forms: Vec<Extent>,
    /// extent of the marked (offending) tokens of the fault form, if any
    pub marked: Option<Extent>,
    pub fault_index: usize,
    pub end: [u32; 2],
}

const MACROS: &[&str] = &["begin", "let", "let*", "cond", "case", "and", "or", "when", "unless"];
const LIBPROCS: &[&str] = &["map", "for-each", "fold-left", "fold-right", "append", "list-tail", "list-ref", "memv", "memq", "equal?", "caar", "cadr", "cddr", "list", "null?", "make-list", "last-pair", "list?"];

fn gen_sep(ch: &mut Chooser, crlf: bool, between_forms: bool) -> String {
    let nl = if crlf { "\r\n" } else { "\n" };
    if between_forms {
        match ch.below(6) {
            0 => nl.to_string(),
            1 => format!("{}{}", nl, nl),
            2 => format!("{}; a comment ( with \" junk{}", nl, nl),
            3 => format!("  ; trailing comment{}", nl),
            4 => format!("{}{}{}   ", nl, nl, nl),
            _ => format!(" {}", nl),
        }
    } else {
        match ch.below(9) {
            0 | 1 | 2 | 3 => " ".to_string(),
            4 => format!("{}    ", nl),
            5 => format!("{}", nl),
            6 => format!(" ; c{}  ", nl),
            7 => "\t".to_string(),
            _ => "".to_string(),
        }
    }
}

pub fn lay_out_program(ch: &mut Chooser, forms: &[Form], fault_index: usize) -> LaidProgram {
    let crlf = ch.chance(1, 5);
    let mut toks: Vec<Tok> = vec![];
    let mut seps: Vec<String> = vec![];
    let mut ranges = vec![];
    for (fi, f) in forms.iter().enumerate() {
        let ft = form_tokens(f);
        let start = toks.len();
        for (ti, t) in ft.into_iter().enumerate() {
            if ti == 0 {
                seps.push(if fi == 0 {
                    if ch.chance(1, 3) {
                        gen_sep(ch, crlf, true)
                    } else {
                        String::new()
                    }
                } else {
                    gen_sep(ch, crlf, true)
                });
            } else {
                seps.push(gen_sep(ch, crlf, false));
            }
            toks.push(t);
        }
        ranges.push((start, toks.len()));
    }
    let laid = lay_out(&toks, &seps);
    let forms_ext: Vec<Extent> = ranges.iter().map(|(a, b)| Extent { start: laid.tokens[*a].start, end: laid.tokens[*b - 1].end }).collect();
    let (fa, fb) = ranges[fault_index];
    let marked_idx: Vec<usize> = (fa..fb).filter(|i| toks[*i].mark == 1).collect();
    let marked = if marked_idx.is_empty() {
        None
    } else {
        Some(Extent { start: laid.tokens[marked_idx[0]].start, end: laid.tokens[*marked_idx.last().unwrap()].end })
    };
    let mut text = laid.text;
    if ch.chance(1, 2) {
        text.push_str(if crlf { "\r\n" } else { "\n" });
    }
    // cursor at the end of the text
    let (mut line, mut col) = (1u32, 1u32);
    for c in text.chars() {
        if c == '\n' {
            line += 1;
            col = 1;
        } else {
            col += 1;
        }
    }
    LaidProgram { text, forms: forms_ext, marked, fault_index, end: [line, col] }
}

fn form_uses(f: &Form, names: &[&str]) -> bool {
    form_tokens(f).iter().any(|t| names.contains(&t.text.as_str()))
}

pub fn eval_whole(text: &str) -> Outcome {
    let t = text.to_string();
    sut::in_thread(move || {
        let mut s = Session::stdlib().unwrap().with_host().with_budget(sut::Budget::GENEROUS);
        s.eval(&t)
    })
}

pub fn case(ch: &mut Chooser, kind: &'static str, context: &'static str, derived: bool) -> Report {
    let mut forms = prelude();
    let depth = 1 + ch.below(3) as u32;
    let mut cfg = if derived && ch.chance(1, 2) { GenCfg::derived(depth) } else { GenCfg::core(depth) };
    cfg.avoid.template_capture = true;
    cfg.max_forms = 6;
    let valid = {
        let mut g = Gen::new(ch, cfg);
        g.gen_program()
    };
    let ff = fault_form_with(ch, kind, context, derived);
    // a definition the fault needs (context "deferred": the faulting operation sits in a procedure defined by an
    // earlier form) goes somewhere among the valid forms
    let pre_at = ch.below(valid.len() + 1);
    for (i, f) in valid.iter().enumerate() {
        if i == pre_at {
            if let Some(p) = &ff.pre {
                forms.push(p.clone());
            }
        }
        forms.push(f.clone());
    }
    if pre_at >= valid.len() {
        if let Some(p) = &ff.pre {
            forms.push(p.clone());
        }
    }
    let fault_index = forms.len();
    forms.push(ff.form);
    forms.push(Form::Expr(Expr::Quote(Datum::Sym("after".into()))));
    judge_program(ch, forms, fault_index, kind, context, derived)
}

/// the same derived form written twice: the first occurrence succeeds, then the state changes and the second one fails;
/// the error must be located in the second occurrence
pub fn repeated_case(ch: &mut Chooser) -> Report {
    let mut forms = prelude();
    let mut cfg = GenCfg::core(2);
    cfg.max_forms = 3;
    let valid = {
        let mut g = Gen::new(ch, cfg);
        g.gen_program()
    };
    forms.extend(valid);
    forms.push(Form::Define(Def { name: "idx".into(), value: Expr::Int(0), sugar: false }));
    let vr = || app("vector-ref", vec![var("wv"), var("idx")]);
    let small = || app("<", vec![var("idx"), Expr::Int(1)]);
    let ok = || Expr::Quote(Datum::Sym("ok".into()));
    let (kind, f): (&'static str, Expr) = match ch.below(7) {
        0 => ("vector-index", Expr::Let(vec![("q".into(), var("idx"))], body1(app("vector-ref", vec![var("wv"), var("q")])))),
        1 => ("vector-index", Expr::When(Box::new(Expr::Bool(true)), vec![Expr::Int(0), vr()])),
        2 => ("unbound-read", Expr::Cond(vec![Clause::Then(small(), vec![ok()])], Some(vec![Expr::Marked(Box::new(var("nowhere-bound")))]))),
        3 => ("vector-index", Expr::Begin(vec![Expr::Int(0), vr()])),
        4 => ("wrong-type", Expr::Case(Box::new(var("idx")), vec![(vec![Datum::Int(0)], CaseBody::Exprs(vec![ok()]))], Some(CaseBody::Exprs(vec![app("car", vec![var("idx")])])))),
        5 => ("unbound-read", Expr::And(vec![Expr::Bool(true), Expr::Or(vec![small(), Expr::Marked(Box::new(var("nowhere-bound")))])])),
        _ => ("vector-index", Expr::Unless(Box::new(Expr::Bool(false)), vec![app("list", vec![vr()])])),
    };
    forms.push(Form::Expr(f.clone()));
    for _ in 0..ch.below(3) {
        forms.push(Form::Expr(Expr::Quote(Datum::Sym("between".into()))));
    }
    forms.push(Form::Expr(Expr::Set("idx".into(), Box::new(Expr::Int(7)))));
    let fault_index = forms.len();
    forms.push(Form::Expr(f));
    forms.push(Form::Expr(Expr::Quote(Datum::Sym("after".into()))));
    let mut rep = judge_program(ch, forms, fault_index, kind, "direct", true);
    rep.label("same-form-written-twice");
    rep
}

/// evaluate the text as a program file (src/io.rs re-assembles it line by line)
pub fn eval_whole_file(text: &str) -> Outcome {
    let t = text.to_string();
    sut::in_thread(move || {
        let dir = std::env::temp_dir().join(format!("rv-c15-{}-{:?}", std::process::id(), std::thread::current().id()));
        let _ = std::fs::create_dir_all(&dir);
        let file = dir.join("program.scm");
        std::fs::write(&file, &t).unwrap();
        let mut s = Session::stdlib().unwrap().with_host().with_budget(sut::Budget::GENEROUS);
        let o = s.eval_file(&file);
        let _ = std::fs::remove_dir_all(&dir);
        o
    })
}

/// the unbound variable / non-procedure is an identifier that a user macro's template introduces: the error is located
/// in the form that uses the macro
pub fn template_identifier_case(ch: &mut Chooser) -> Report {
    let mut forms = prelude();
    let (def, use_): (&str, Expr) = match ch.below(4) {
        0 => ("(define-syntax call-helper (syntax-rules () ((call-helper x) (undefined-helper x))))", app("call-helper", vec![Expr::Int(1)])),
        1 => ("(define-syntax read-global (syntax-rules () ((read-global) (list 1 undefined-global))))", app("read-global", vec![])),
        2 => ("(define-syntax apply-five (syntax-rules () ((apply-five x) (five x))))", app("apply-five", vec![Expr::Int(1)])),
        _ => ("(define-syntax call-helper2 (syntax-rules () ((call-helper2 x y) (+ x (undefined-helper y)))))", app("call-helper2", vec![Expr::Int(1), Expr::Int(2)])),
    };
    forms.push(Form::Raw(def.to_string()));
    // the use sits at the start of the form, or a little inside it
    let f = match ch.below(3) {
        0 => use_,
        1 => app("list", vec![use_]),
        _ => Expr::If(Box::new(Expr::Bool(true)), Box::new(use_), None),
    };
    let fault_index = forms.len();
    forms.push(Form::Expr(f));
    forms.push(Form::Expr(Expr::Quote(Datum::Sym("after".into()))));
    // judged on the extent of the failing form only (kind wrong-type: no offending token of the user's own text)
    let mut rep = judge_program(ch, forms, fault_index, "wrong-type", "direct", false);
    rep.label("identifier-introduced-by-a-template");
    rep.nontrivial = true;
    rep
}

/// the faulting form is the very first form the interpreter evaluates (nothing, or only comments, before it)
pub fn first_form_case(ch: &mut Chooser) -> Report {
    let marked = |e: Expr| Expr::Marked(Box::new(e));
    let (kind, f): (&'static str, Expr) = match ch.below(6) {
        0 => ("unbound-read", app("list", vec![Expr::Int(1), Expr::Int(2), marked(var("nowhere-bound"))])),
        1 => ("unbound-read", Expr::If(Box::new(Expr::Bool(true)), Box::new(app("+", vec![Expr::Int(1), marked(var("nowhere-bound"))])), None)),
        2 => ("non-procedure", app("+", vec![Expr::Int(1), Expr::App(Box::new(marked(Expr::Int(5))), vec![Expr::Int(1)])])),
        3 => ("non-procedure", app("list", vec![Expr::Quote(Datum::Sym("a".into())), Expr::App(Box::new(marked(Expr::Str("f".into()))), vec![])])),
        4 => ("unbound-read", app("car", vec![app("cons", vec![Expr::Int(0), marked(var("nowhere-bound"))])])),
        _ => ("wrong-type", app("list", vec![Expr::Int(1), app("car", vec![Expr::Int(5)])])),
    };
    let forms = vec![Form::Expr(f), Form::Expr(Expr::Quote(Datum::Sym("after".into())))];
    let mut rep = judge_program(ch, forms, 0, kind, "direct", false);
    rep.label("first-form-evaluated");
    rep.nontrivial = true;
    rep
}

fn judge_program(ch: &mut Chooser, forms: Vec<Form>, fault_index: usize, kind: &'static str, context: &'static str, derived: bool) -> Report {
    let mut laid = lay_out_program(ch, &forms, fault_index);
    // a third of the programs are read from a file, half of those behind a header of comment-only lines
    let from_file = ch.chance(1, 3);
    let header = if from_file && ch.chance(1, 2) { 1 + ch.below(3) as u32 } else { 0 };
    if header > 0 {
        let nl = if laid.text.contains("\r\n") { "\r\n" } else { "\n" };
        let head: String = (0..header).map(|k| format!("; header line {} ( of the file{}", k, nl)).collect();
        laid.text = format!("{}{}", head, laid.text);
        let shift = |e: &mut Extent| {
            e.start[0] += header;
            e.end[0] += header;
        };
        laid.forms.iter_mut().for_each(shift);
        if let Some(m) = laid.marked.as_mut() {
            shift(m);
        }
        laid.end[0] += header;
    }
    let mut rep = Report::new(laid.text.clone());
    rep.label(format!("kind:{}", kind));
    rep.label(format!("context:{}", context));
    rep.label(if derived { "with-derived-forms" } else { "excluded_by_construction:derived-forms-and-library-context" });
    let fe = &laid.forms[fault_index];
    rep.nontrivial = fe.start[0] > 1 && fe.end[0] > fe.start[0];
    // the forms before the injected fault must succeed (the first error of the text is then the injected one)
    {
        let mut m = crate::refeval::Machine::new(crate::refeval::ORDERS[0]);
        if forms[..fault_index].iter().any(|f| !matches!(f, Form::Raw(t) if t.starts_with("(define-syntax")) && m.eval_form(f).is_err()) {
            rep.skipped = Some("a-form-before-the-fault-fails-in-the-reference-evaluator".into());
            return rep;
        }
    }
    if context == "deferred" && matches!(kind, "unbound-read" | "unbound-set" | "non-procedure") {
        // an error that carries the location of the offending identifier / operator points into the earlier definition,
        // while the form whose evaluation failed is the later call: the two clauses of the property name different forms
        rep.skipped = Some("deferred-fault-with-a-location-of-its-own".into());
        return rep;
    }
    if from_file {
        rep.label(if header > 0 { "read-from-file-with-comment-header" } else { "read-from-file" });
    }
    let o = if from_file { eval_whole_file(&laid.text) } else { eval_whole(&laid.text) };
    rep.note = format!("{} ; failing form extent {:?}-{:?}, offending token {:?}", o.show(), fe.start, fe.end, laid.marked.as_ref().map(|m| (m.start, m.end)));
    let uses_macro = form_uses(&forms[fault_index], MACROS);
    let uses_lib = form_uses(&forms[fault_index], LIBPROCS);
    // errors that carry a location of their own (unbound variable, non-procedure operator) are located exactly even
    // under derived forms on the pinned tree: the recorded finding covers only errors located through the enclosing form
    let self_located = kind == "unbound-read" || (kind == "non-procedure" && matches!(context, "direct" | "non-tail" | "tail"));
    let blame = if self_located {
        ""
    } else if uses_macro {
        ":under-derived-form"
    } else if uses_lib {
        ":under-library-procedure"
    } else {
        ""
    };
    match &o {
        Outcome::Error(e) => match e.loc {
            None => rep.fail(format!("error-without-location:{}", e.tag), format!("{} carries no location", e.tag)),
            Some(loc) => {
                if !fe.contains(loc) {
                    let wher = if laid.forms.iter().any(|x| x.contains(loc)) {
                        "in-another-form"
                    } else if loc[0] > laid.end[0] || (loc[0] == laid.end[0] && loc[1] > laid.end[1]) {
                        "beyond-end-of-text"
                    } else {
                        "between-forms"
                    };
                    let sig = if blame.is_empty() { format!("location-outside-failing-form:{}", wher) } else { format!("location-from-bundled-source{}", blame) };
                    rep.fail(
                        sig,
                        format!("{} reported at {:?}, failing form spans {:?}-{:?}", e.tag, loc, fe.start, fe.end),
                    );
                } else if matches!(kind, "unbound-read" | "non-procedure") && !(kind == "non-procedure" && matches!(context, "apply" | "library")) {
                    // (for apply / library contexts the non-procedure is an operand of apply/map, not an operator: form extent only)
                    if let Some(m) = &laid.marked {
                        // the offending identifier / operator: cursor anywhere from its first character to just past its last
                        if !m.contains(loc) {
                            let sig = if blame.is_empty() { format!("location-not-at-offending-token:{}:{}", kind, context) } else { format!("location-from-bundled-source{}", blame) };
                            rep.fail(
                                sig,
                                format!("{} reported at {:?}, offending token spans {:?}-{:?}", e.tag, loc, m.start, m.end),
                            );
                        }
                    }
                }
            }
        },
        Outcome::Panic { site, msg } => rep.fail(sut::panic_sig(site, msg), "panic".to_string()),
        Outcome::Budget(_) => rep.skipped = Some("budget".into()),
        other => rep.fail("fault-not-reported", format!("the program should fail at form {}, got {}", fault_index, other.show())),
    }
    rep
}

/// syntax faults: a stray closing parenthesis / an unterminated list somewhere in otherwise valid text
pub fn syntax_case(ch: &mut Chooser) -> Report {
    let mut cfg = GenCfg::core(2);
    cfg.max_forms = 5;
    let valid = {
        let mut g = Gen::new(ch, cfg);
        g.gen_program()
    };
    let stray = ch.chance(1, 2);
    let mut toks: Vec<Tok> = vec![];
    let mut seps: Vec<String> = vec![];
    let at = ch.below(valid.len() + 1);
    let mut offending: Option<usize> = None;
    for (fi, f) in valid.iter().enumerate() {
        if stray && fi == at {
            offending = Some(toks.len());
            toks.push(Tok { text: ")".into(), mark: 1 });
            seps.push(gen_sep(ch, false, true));
        }
        for (ti, t) in form_tokens(f).into_iter().enumerate() {
            seps.push(if ti == 0 { gen_sep(ch, false, true) } else { gen_sep(ch, false, false) });
            toks.push(t);
        }
    }
    if stray && offending.is_none() {
        offending = Some(toks.len());
        toks.push(Tok { text: ")".into(), mark: 1 });
        seps.push(gen_sep(ch, false, true));
    }
    if !stray {
        // drop the last closing parenthesis of the text: the last list is never closed
        if let Some(p) = toks.iter().rposition(|t| t.text == ")") {
            toks.remove(p);
            seps.remove(p);
        }
    }
    let laid = lay_out(&toks, &seps);
    let mut rep = Report::new(laid.text.clone());
    rep.label(if stray { "syntax:stray-paren" } else { "syntax:unterminated-list" });
    rep.nontrivial = laid.text.contains('\n');
    let (mut line, mut col) = (1u32, 1u32);
    for c in laid.text.chars() {
        if c == '\n' {
            line += 1;
            col = 1;
        } else {
            col += 1;
        }
    }
    let end = [line, col];
    let o = eval_whole(&laid.text);
    rep.note = o.show();
    match &o {
        Outcome::Error(e) if e.tag.starts_with("Syntax::") => {
            if let Some(loc) = e.loc {
                let limit = match offending {
                    Some(i) => laid.tokens[i].end,
                    None => end,
                };
                let after = loc[0] > limit[0] || (loc[0] == limit[0] && loc[1] > limit[1]);
                if after {
                    rep.fail(
                        format!("syntax-location-after-offending-token:{}", if stray { "stray-paren" } else { "unterminated" }),
                        format!("{} at {:?}, offending token ends at {:?}", e.tag, loc, limit),
                    );
                }
            }
        }
        Outcome::Error(_) | Outcome::Value(_) | Outcome::NoValue => {
            // an earlier valid form may legitimately fail or the text may be accepted up to the fault: not judged here
            if !matches!(o, Outcome::Error(_)) && stray {
                rep.fail("stray-paren-accepted", format!("got {}", o.show()));
            }
        }
        Outcome::Panic { site, msg } => rep.fail(sut::panic_sig(site, msg), "panic".to_string()),
        Outcome::Budget(_) => rep.skipped = Some("budget".into()),
    }
    rep
}

pub fn run(ctx: &Ctx) {
    ctx.set_rule(
        "the C08 fault programs (8 kinds x 5 contexts, preceded by a prelude and 1-6 random valid forms) rendered as one \
         text with random multi-line layout (line breaks and indentation inside forms, comments, blank lines, LF or CRLF), \
         the cursor extent of every top-level form and of the offending token being recorded by the renderer; evaluated \
         whole. Oracle: the error carries a location, inside the failing form's extent, and for unbound-variable / \
         non-procedure faults inside the offending token's extent; plus stray ')' / unterminated list: a located syntax \
         error points at or before the offending token. A third of the programs are read from a file (half of those behind a header of comment-only lines). \
         Half of the cases avoid derived forms and library contexts by \
         construction. Context `deferred` (the fault sits in a procedure defined by an earlier form, the failing form is the \
         later call) is judged for the fault kinds whose error has no location of its own; a fault in the very first form evaluated is located like any other; a derived form written twice \
         (first occurrence succeeds, the state changes, the second fails) must be located in the second occurrence. Non-trivial = the failing form is not on line 1 and spans >= 2 lines.",
    );
    let per = ctx.tier.pick(100, 400);
    ctx.random("same-form-written-twice", ctx.tier.pick(600, 4_000), 300, repeated_case);
    ctx.random("first-form", ctx.tier.pick(400, 3_000), 200, first_form_case);
    ctx.random("template-identifier", ctx.tier.pick(400, 3_000), 200, template_identifier_case);
    for kind in KINDS.iter() {
        for context in CONTEXTS_C08.iter() {
            for derived in [false, true] {
                if !derived && *context == "library" {
                    continue;
                }
                let sub = format!("{}@{}{}", kind, context, if derived { "+derived" } else { "" });
                ctx.random(&sub, per, 600, |ch: &mut Chooser| case(ch, kind, context, derived));
            }
        }
    }
    ctx.random("syntax-faults", ctx.tier.pick(2_000, 10_000), 300, syntax_case);
}
