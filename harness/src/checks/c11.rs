//! C11 — the list library computes what its specification says.
use crate::ast::*;
use crate::progcheck::{compare, obs_text, run_sut, Cmp};
use crate::runner::{Chooser, Ctx, Report};
use crate::sut::Budget;

pub const CXR: [&str; 12] = ["caar", "cadr", "cdar", "cddr", "caaar", "caadr", "cadar", "caddr", "cdaar", "cdadr", "cddar", "cdddr"];
pub const PROCS: [&str; 22] = [
    "car", "cdr", "cons", "cxr", "list", "make-list", "null?", "pair?", "list?", "append", "map", "for-each", "fold-left", "fold-right",
    "list-tail", "list-ref", "last-pair", "memq", "memv", "equal?", "apply", "compose",
];

fn atom(ch: &mut Chooser, vectors: bool) -> Datum {
    match ch.below(if vectors { 13 } else { 12 }) {
        // inexact reals with integral and fractional values next to the exact integers of the same value
        11 => Datum::Real(ch.pick_s(&["2.0", "0.0", "-1.0", "3.0", "0.5", "2.5", "1.0"]).to_string()),
        0 | 1 | 2 => Datum::Int(ch.range(-5, 9) as i32),
        3 => {
            let b = *ch.pick(&[2, 3, 5, 7]);
            let mut a = ch.range(-9, 9) as i32;
            if a % b == 0 {
                a += 1;
            }
            Datum::Ratio(a, b)
        }
        4 => Datum::Bool(ch.chance(1, 2)),
        5 => Datum::Char(*ch.pick(&['a', 'b', 'z'])),
        6 | 7 => Datum::Sym(ch.pick_s(&["p", "q", "r", "s"]).to_string()),
        8 => Datum::Str(ch.pick_s(&["", "s", "two words"]).to_string()),
        9 | 10 => Datum::List(vec![], None),
        _ => Datum::Vector((0..ch.below(4)).map(|_| Datum::Int(ch.range(0, 3) as i32)).collect()),
    }
}

fn data(ch: &mut Chooser, depth: u32, vectors: bool) -> Datum {
    if depth == 0 || ch.chance(1, 3) {
        return atom(ch, vectors);
    }
    let imp = ch.chance(1, 5);
    list_data(ch, depth, imp, vectors)
}

fn list_data(ch: &mut Chooser, depth: u32, improper: bool, vectors: bool) -> Datum {
    let n = match ch.below(4) {
        0 => ch.below(3),
        1 => ch.below(6),
        _ => ch.below(13),
    };
    let items: Vec<Datum> = (0..n).map(|_| data(ch, depth.saturating_sub(1), vectors)).collect();
    let tail = if improper && n > 0 {
        let t = atom(ch, vectors);
        if matches!(t, Datum::List(..)) {
            None
        } else {
            Some(Box::new(t))
        }
    } else {
        None
    };
    Datum::List(items, tail)
}

fn int_list(ch: &mut Chooser) -> Datum {
    let n = ch.below(8);
    Datum::List((0..n).map(|_| Datum::Int(ch.range(-5, 9) as i32)).collect(), None)
}

fn q(d: Datum) -> Expr {
    Expr::Quote(d)
}

fn is_proper(d: &Datum) -> bool {
    matches!(d, Datum::List(_, None))
}

fn has_vector(d: &Datum) -> bool {
    match d {
        Datum::Vector(_) => true,
        Datum::List(items, tail) => items.iter().any(has_vector) || tail.as_ref().map(|t| has_vector(t)).unwrap_or(false),
        _ => false,
    }
}

fn len_of(d: &Datum) -> usize {
    match d {
        Datum::List(items, _) => items.len(),
        _ => 0,
    }
}

fn ticking_unary(ch: &mut Chooser) -> Expr {
    // (lambda (e) (tick e BODY)): the trace shows which elements were visited, in which order, how often
    let body = match ch.below(6) {
        // procedures that fail on some elements (car of a non-pair) or answer #f: an error ends the traversal with
        // that error, a false answer does not end it
        4 => app("car", vec![var("e")]),
        5 => app("pair?", vec![app("list", vec![])]),
        0 => app("list", vec![var("e")]),
        1 => var("e"),
        2 => app("cons", vec![var("e"), Expr::Quote(Datum::List(vec![], None))]),
        _ => app("pair?", vec![var("e")]),
    };
    Expr::Lambda(Formals { fixed: vec!["e".into()], rest: None }, body1(Expr::App(Box::new(var("tick")), vec![var("e"), body])))
}

fn ticking_binary(ch: &mut Chooser) -> Expr {
    let body = match ch.below(3) {
        0 => app("cons", vec![var("e"), var("acc")]),
        1 => app("list", vec![var("acc"), var("e")]),
        _ => var("e"),
    };
    Expr::Lambda(Formals { fixed: vec!["e".into(), "acc".into()], rest: None }, body1(Expr::App(Box::new(var("tick")), vec![var("e"), body])))
}

/// all tree shapes of depth <= 3 whose leaves are distinct integers (for the c[ad]r compositions)
pub fn shapes(depth: u32, next: &mut i32) -> Vec<Datum> {
    fn leaf(next: &mut i32) -> Datum {
        *next += 1;
        Datum::Int(*next)
    }
    if depth == 0 {
        return vec![leaf(next)];
    }
    let mut out = vec![leaf(next), Datum::List(vec![], None)];
    let subs = shapes(depth - 1, next);
    for a in &subs {
        for d in &subs {
            // (a . d)
            let pair = match d {
                Datum::List(items, tail) => {
                    let mut v = vec![a.clone()];
                    v.extend(items.iter().cloned());
                    Datum::List(v, tail.clone())
                }
                other => Datum::List(vec![a.clone()], Some(Box::new(other.clone()))),
            };
            out.push(pair);
        }
    }
    out
}

pub struct Case {
    pub proc_name: String,
    pub expr: Expr,
    pub nontrivial: bool,
    /// recognisers of recorded findings
    pub append_improper_last: bool,
    pub equal_on_vectors: bool,
}

pub fn gen_case(ch: &mut Chooser, which: &str) -> Case {
    let mut c = Case { proc_name: which.to_string(), expr: Expr::Int(0), nontrivial: false, append_improper_last: false, equal_on_vectors: false };
    let nt = |d: &Datum| len_of(d) >= 2 || !is_proper(d) || matches!(d, Datum::List(items, _) if items.iter().any(|i| matches!(i, Datum::List(..))));
    match which {
        "car" | "cdr" | "null?" | "pair?" | "list?" | "last-pair" => {
            let d = data(ch, 3, which != "last-pair");
            c.nontrivial = nt(&d) || !matches!(d, Datum::List(..));
            c.expr = app(which, vec![q(d)]);
        }
        "cxr" => {
            let name = *ch.pick(&CXR);
            let d = data(ch, 3, false);
            c.proc_name = name.to_string();
            c.nontrivial = true;
            c.expr = app(name, vec![q(d)]);
        }
        "cons" => {
            let (a, d) = (data(ch, 2, true), data(ch, 2, true));
            c.nontrivial = nt(&d);
            c.expr = app("cons", vec![q(a), q(d)]);
        }
        "list" => {
            let n = ch.below(6);
            c.nontrivial = n >= 2;
            c.expr = app("list", (0..n).map(|_| q(data(ch, 2, true))).collect());
        }
        "make-list" => {
            let k = ch.range(0, 6) as i32;
            c.nontrivial = k >= 2;
            c.expr = app("make-list", vec![Expr::Int(k), q(data(ch, 2, false))]);
        }
        "append" => {
            let n = ch.below(5);
            let mut args = vec![];
            for i in 0..n {
                let last = i + 1 == n;
                let d = if last {
                    if ch.chance(1, 3) {
                        // R7RS: the last argument may be any object
                        let t = if ch.chance(1, 2) { atom(ch, false) } else { list_data(ch, 2, true, false) };
                        if !is_proper(&t) {
                            c.append_improper_last = true;
                        }
                        t
                    } else {
                        list_data(ch, 2, false, false)
                    }
                } else {
                    list_data(ch, 2, false, false)
                };
                c.nontrivial |= nt(&d);
                args.push(q(d));
            }
            c.expr = app("append", args);
        }
        "map" | "for-each" if ch.chance(1, 3) => {
            // several lists of different lengths: the shortest decides; the procedure takes one argument per list
            let k = 2 + ch.below(3);
            let fsel = ch.below(3);
            // `+` needs numbers; `list` and the ticking procedure take any element (nested and improper-free data too)
            let any_data = fsel != 0 && ch.chance(1, 2);
            let lists: Vec<Datum> = (0..k).map(|_| if any_data && ch.chance(2, 3) { list_data(ch, 2, false, false) } else { int_list(ch) }).collect();
            c.nontrivial = lists.iter().map(len_of).min().unwrap_or(0) >= 1;
            let names: Vec<String> = (0..k).map(|i| format!("e{}", i)).collect();
            let f = match fsel {
                0 => var("+"),
                1 => var("list"),
                _ => Expr::Lambda(
                    Formals { fixed: names.clone(), rest: None },
                    body1(Expr::App(Box::new(var("tick")), vec![var(&names[0]), app("list", names.iter().map(|n| var(n)).collect())])),
                ),
            };
            let mut args = vec![f];
            args.extend(lists.into_iter().map(q));
            c.expr = app(which, args);
        }
        "map" | "for-each" => {
            let l = if ch.chance(1, 2) { int_list(ch) } else { list_data(ch, 2, false, false) };
            c.nontrivial = len_of(&l) >= 2;
            let f = match ch.below(4) {
                0 if matches!(&l, Datum::List(items, _) if items.iter().all(|i| matches!(i, Datum::Int(_)))) => var(*ch.pick(&["-", "abs", "list"])),
                1 => var("list"),
                _ => ticking_unary(ch),
            };
            c.expr = app(which, vec![f, q(l)]);
        }
        "fold-left" | "fold-right" => {
            let l = if ch.chance(1, 2) { int_list(ch) } else { list_data(ch, 2, false, false) };
            c.nontrivial = len_of(&l) >= 2;
            let ints = matches!(&l, Datum::List(items, _) if items.iter().all(|i| matches!(i, Datum::Int(_))));
            let (f, init) = match ch.below(4) {
                0 if ints => (var("+"), Expr::Int(0)),
                1 if ints => (var("-"), Expr::Int(0)),
                2 => (var("cons"), q(Datum::List(vec![], None))),
                _ => (ticking_binary(ch), q(Datum::List(vec![], None))),
            };
            c.expr = app(which, vec![f, init, q(l)]);
        }
        "list-tail" | "list-ref" => {
            let imp = ch.chance(1, 6);
            let l = list_data(ch, 2, imp, false);
            let n = len_of(&l) as i64;
            // in range, at the boundary, and one outside
            let k = match ch.below(5) {
                0 => 0,
                1 => n,
                2 => n + 1,
                3 => (n - 1).max(0),
                _ => ch.range(0, n + 1),
            };
            c.nontrivial = n >= 2 || k > n;
            c.expr = app(which, vec![q(l), Expr::Int(k as i32)]);
        }
        "memq" | "memv" => {
            let n = ch.below(8);
            let items: Vec<Datum> = (0..n)
                .map(|_| loop {
                    let a = atom(ch, false);
                    // memq is exercised on atoms for which eq? and eqv? are the same relation
                    if !matches!(a, Datum::Str(_) | Datum::List(..)) {
                        break a;
                    }
                })
                .collect();
            let needle = if !items.is_empty() && ch.chance(2, 3) {
                items[ch.below(items.len())].clone()
            } else {
                loop {
                    let a = atom(ch, false);
                    if !matches!(a, Datum::Str(_) | Datum::List(..)) {
                        break a;
                    }
                }
            };
            c.nontrivial = n >= 2;
            if ch.chance(1, 5) {
                // the needle is a freshly made pair / vector with the contents of one element: not the same object,
                // so it is not found (memq and memv do not compare contents)
                let mut with = items.clone();
                let pos = ch.below(with.len() + 1);
                let (elem, fresh) = if ch.chance(1, 2) {
                    (Datum::List(vec![Datum::Int(1), Datum::Int(2)], None), app("list", vec![Expr::Int(1), Expr::Int(2)]))
                } else {
                    (Datum::Vector(vec![Datum::Int(1), Datum::Int(2)]), app("vector", vec![Expr::Int(1), Expr::Int(2)]))
                };
                with.insert(pos, elem);
                c.expr = app(which, vec![fresh, q(Datum::List(with, None))]);
            } else {
                c.expr = app(which, vec![q(needle), q(Datum::List(items, None))]);
            }
        }
        "equal?" => {
            let a = data(ch, 3, true);
            let b = if ch.chance(1, 2) {
                a.clone()
            } else if ch.chance(2, 3) {
                // a near copy: one atom changed at a random position of the structure (any element of any vector or
                // list, the first ones included)
                fn change_one(ch: &mut Chooser, d: &Datum) -> Datum {
                    match d {
                        Datum::List(items, tail) if !items.is_empty() => {
                            let mut v = items.clone();
                            let i = ch.below(v.len());
                            v[i] = if ch.chance(1, 2) { change_one(ch, &v[i].clone()) } else { atom(ch, false) };
                            Datum::List(v, tail.clone())
                        }
                        Datum::Vector(items) if !items.is_empty() => {
                            let mut v = items.clone();
                            let i = ch.below(v.len());
                            v[i] = match &v[i] {
                                Datum::Int(k) => Datum::Int(k + 1),
                                other => change_one(ch, other),
                            };
                            Datum::Vector(v)
                        }
                        Datum::Int(k) => Datum::Int(k + 1),
                        _ => atom(ch, false),
                    }
                }
                change_one(ch, &a)
            } else {
                data(ch, 3, true)
            };
            c.equal_on_vectors = has_vector(&a) && has_vector(&b);
            c.nontrivial = nt(&a);
            c.expr = app("equal?", vec![q(a), q(b)]);
        }
        "apply" => {
            let l = int_list(ch);
            let lead = ch.below(3);
            let f = match ch.below(4) {
                0 => var("+"),
                1 => var("list"),
                2 => var("max"),
                _ => Expr::Lambda(
                    Formals { fixed: vec!["a".into()], rest: Some("more".into()) },
                    body1(Expr::App(Box::new(var("tick")), vec![var("a"), app("cons", vec![var("a"), var("more")])])),
                ),
            };
            c.nontrivial = len_of(&l) + lead >= 2;
            let leads: Vec<Expr> = (0..lead).map(|_| Expr::Int(ch.range(0, 9) as i32)).collect();
            c.expr = Expr::Apply(Box::new(f), leads, Box::new(q(l)));
        }
        _ => {
            // compositions of 2-5 library calls over integer lists
            fn lst(ch: &mut Chooser, fuel: u32) -> Expr {
                if fuel == 0 {
                    return Expr::Quote(int_list(ch));
                }
                match ch.below(7) {
                    0 => app("append", vec![lst(ch, fuel - 1), lst(ch, fuel - 1)]),
                    1 => app("map", vec![ticking_unary_int(), lst(ch, fuel - 1)]),
                    2 => app("list-tail", vec![lst(ch, fuel - 1), Expr::Int(ch.range(0, 3) as i32)]),
                    3 => app("fold-right", vec![var("cons"), Expr::Quote(Datum::List(vec![], None)), lst(ch, fuel - 1)]),
                    4 => app("fold-left", vec![var("cons"), Expr::Quote(Datum::List(vec![], None)), lst(ch, fuel - 1)]),
                    5 => app("cons", vec![app("list-ref", vec![lst(ch, fuel - 1), Expr::Int(ch.range(0, 2) as i32)]), lst(ch, fuel - 1)]),
                    _ => app("cdr", vec![app("last-pair", vec![lst(ch, fuel - 1)])]),
                }
            }
            fn ticking_unary_int() -> Expr {
                Expr::Lambda(Formals { fixed: vec!["e".into()], rest: None }, body1(Expr::App(Box::new(var("tick")), vec![var("e"), app("+", vec![var("e"), Expr::Int(1)])])))
            }
            let fuel = 2 + ch.below(3) as u32;
            c.nontrivial = true;
            c.expr = match ch.below(3) {
                0 => lst(ch, fuel),
                1 => app("equal?", vec![lst(ch, fuel - 1), lst(ch, fuel - 1)]),
                _ => app("memv", vec![Expr::Int(ch.range(0, 5) as i32), lst(ch, fuel)]),
            };
        }
    }
    c
}

pub fn judge_case(c: &Case) -> Report {
    let forms = vec![Form::Expr(c.expr.clone())];
    let mut rep = Report::new(render_expr(&c.expr));
    rep.label(format!("proc:{}", c.proc_name));
    rep.nontrivial = c.nontrivial;
    let obs = run_sut(&forms, Budget::GENEROUS);
    rep.note = obs_text(&obs);
    match compare(&forms, &obs) {
        Cmp::Pass => {}
        Cmp::Skip(w) => rep.skipped = Some(w.split(':').next().unwrap_or("").to_string()),
        Cmp::Fail { sig, detail, .. } => {
            let sig = if c.append_improper_last {
                "append-rejects-non-list-last-argument".to_string()
            } else if c.equal_on_vectors {
                "equal-compares-vectors-by-identity".to_string()
            } else {
                format!("{}:{}", sig, c.proc_name)
            };
            rep.fail(sig, detail);
        }
    }
    rep
}

pub fn run(ctx: &Ctx) {
    ctx.set_rule(
        "per library procedure (car cdr cons, the twelve c[ad]{2,3}r, list make-list null? pair? list? append map for-each \
         fold-left fold-right list-tail list-ref last-pair memq memv equal? apply) random argument tuples inside its R7RS \
         (folds: minischeme) domain: proper/improper lists up to length 12, nesting up to 3, atoms of every kind, indices in \
         range / at the boundary / one outside, procedure arguments that tick with the element (so call count and order \
         are visible) or builtins; the c[ad]r compositions on every tree shape of depth <= 3 exhaustively; random \
         compositions of 2-5 library calls. Oracle: the reference evaluator's list library (value, error-or-not, tick \
         trace). Non-trivial = a list of length >= 2 or nested or improper, or an expected error.",
    );
    // exhaustive c[ad]r on every shape
    let mut next = 0;
    let sh = shapes(3, &mut next);
    let total = (sh.len() * CXR.len()) as u64;
    let stride = ctx.tier.pick(7, 1);
    ctx.indexed("cxr-shapes", total, stride, |i| {
        let name = CXR[(i as usize) % CXR.len()];
        let d = &sh[(i as usize) / CXR.len()];
        let c = Case { proc_name: name.to_string(), expr: app(name, vec![Expr::Quote(d.clone())]), nontrivial: true, append_improper_last: false, equal_on_vectors: false };
        Some(judge_case(&c))
    });
    let per = ctx.tier.pick(500, 3000);
    for p in PROCS.iter() {
        ctx.random(p, per, 200, |ch| {
            let c = gen_case(ch, p);
            judge_case(&c)
        });
    }
}
