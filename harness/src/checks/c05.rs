//! C05 — derived forms behave as R7RS specifies.
use crate::ast::*;
use crate::gen::{Gen, GenCfg};
use crate::progcheck::{compare, obs_text, program_text, run_sut, Cmp};
use crate::runner::{Chooser, Ctx, Report};
use crate::sut::Budget;

/// consistent renaming of the identifiers that the bundled templates introduce (x, temp, atom-key)
pub fn rename_template_names(forms: &[Form]) -> (Vec<Form>, Vec<&'static str>) {
    let text = program_text(forms);
    let mut used = vec![];
    for n in crate::gen::TEMPLATE_NAMES {
        // token-level occurrence
        if text.split(|c: char| c.is_whitespace() || c == '(' || c == ')' || c == '\'').any(|t| t == *n) {
            used.push(*n);
        }
    }
    let rn = |n: &str| -> String {
        match n {
            "x" => "x_user".to_string(),
            "temp" => "temp_user".to_string(),
            "atom-key" => "atom_key_user".to_string(),
            o => o.to_string(),
        }
    };
    fn rb(b: &Body, rn: &dyn Fn(&str) -> String) -> Body {
        Body {
            defs: b.defs.iter().map(|d| Def { name: rn(&d.name), value: re(&d.value, rn), sugar: d.sugar }).collect(),
            exprs: b.exprs.iter().map(|e| re(e, rn)).collect(),
        }
    }
    fn rf(f: &Formals, rn: &dyn Fn(&str) -> String) -> Formals {
        Formals { fixed: f.fixed.iter().map(|n| rn(n)).collect(), rest: f.rest.as_ref().map(|n| rn(n)) }
    }
    fn re(e: &Expr, rn: &dyn Fn(&str) -> String) -> Expr {
        let m = |x: &Expr| re(x, rn);
        let mb = |x: &Box<Expr>| Box::new(re(x, rn));
        let mv = |xs: &Vec<Expr>| xs.iter().map(|x| re(x, rn)).collect::<Vec<_>>();
        match e {
            Expr::Var(n) => Expr::Var(rn(n)),
            Expr::Set(n, v) => Expr::Set(rn(n), mb(v)),
            Expr::If(c, a, b) => Expr::If(mb(c), mb(a), b.as_ref().map(|b| mb(b))),
            Expr::Lambda(f, b) => Expr::Lambda(rf(f, rn), Box::new(rb(b, rn))),
            Expr::App(g, a) => Expr::App(mb(g), mv(a)),
            Expr::Apply(g, a, l) => Expr::Apply(mb(g), mv(a), mb(l)),
            Expr::Begin(es) => Expr::Begin(mv(es)),
            Expr::Let(bs, b) => Expr::Let(bs.iter().map(|(n, v)| (rn(n), m(v))).collect(), Box::new(rb(b, rn))),
            Expr::LetStar(bs, b) => Expr::LetStar(bs.iter().map(|(n, v)| (rn(n), m(v))).collect(), Box::new(rb(b, rn))),
            Expr::Cond(cs, els) => Expr::Cond(
                cs.iter()
                    .map(|c| match c {
                        Clause::Test(t) => Clause::Test(m(t)),
                        Clause::Then(t, es) => Clause::Then(m(t), mv(es)),
                        Clause::Arrow(t, r) => Clause::Arrow(m(t), m(r)),
                    })
                    .collect(),
                els.as_ref().map(|es| mv(es)),
            ),
            Expr::Case(k, cs, els) => {
                let cb = |b: &CaseBody| match b {
                    CaseBody::Exprs(es) => CaseBody::Exprs(mv(es)),
                    CaseBody::Arrow(r) => CaseBody::Arrow(Box::new(m(r))),
                };
                Expr::Case(mb(k), cs.iter().map(|(ks, b)| (ks.clone(), cb(b))).collect(), els.as_ref().map(|b| cb(b)))
            }
            Expr::And(es) => Expr::And(mv(es)),
            Expr::Or(es) => Expr::Or(mv(es)),
            Expr::When(c, es) => Expr::When(mb(c), mv(es)),
            Expr::Unless(c, es) => Expr::Unless(mb(c), mv(es)),
            Expr::Tick(k, v) => Expr::Tick(*k, mb(v)),
            Expr::Probe(v) => Expr::Probe(mb(v)),
            Expr::Marked(v) => Expr::Marked(mb(v)),
            other => other.clone(),
        }
    }
    let out = forms
        .iter()
        .map(|f| match f {
            Form::Define(d) => Form::Define(Def { name: rn(&d.name), value: re(&d.value, &rn), sugar: d.sugar }),
            Form::Expr(e) => Form::Expr(re(e, &rn)),
            Form::Raw(s) => Form::Raw(s.clone()),
            other => other.clone(),
        })
        .collect();
    (out, used)
}

pub fn judge(forms: &[Form], rep: &mut Report) {
    let obs = run_sut(forms, Budget::GENEROUS);
    rep.note = obs_text(&obs);
    match compare(forms, &obs) {
        Cmp::Pass => {}
        Cmp::Skip(w) => rep.skipped = Some(w.split(':').next().unwrap_or("").to_string()),
        Cmp::Fail { form, sig, detail } => {
            // attribution by experiment: does the failure disappear when the user's variables named like the
            // identifiers that the bundled templates introduce are renamed consistently?
            let (renamed, used) = rename_template_names(forms);
            if !used.is_empty() && !sig.starts_with("panic@") {
                let obs2 = run_sut(&renamed, Budget::GENEROUS);
                if let Cmp::Pass = compare(&renamed, &obs2) {
                    rep.fail(
                        "template-captures-user-variable".to_string(),
                        format!("form {}: {} (passes after renaming {:?})", form, detail, used),
                    );
                    return;
                }
            }
            rep.fail(sig, format!("form {}: {}", form, detail))
        }
    }
}

pub fn random_case(ch: &mut Chooser, max_depth: u32) -> Report {
    let depth = 1 + ch.below(max_depth as usize) as u32;
    let mut cfg = GenCfg::derived(depth);
    // the recorded finding 'template-captures-user-variable' is avoided by construction in 7 of 8 cases
    // (names x / temp / atom-key not used for user variables), so that it cannot mask other disagreements
    let avoid = !ch.chance(1, 8);
    cfg.avoid.template_capture = avoid;
    let mut g = Gen::new(ch, cfg);
    let forms = g.gen_program();
    let labels = g.labels.clone();
    let mut rep = Report::new(program_text(&forms));
    rep.nontrivial = labels.derived >= 2 && labels.skipped_subforms >= 1;
    for k in &labels.derived_kinds {
        rep.label(format!("uses:{}", k));
    }
    rep.label(format!("derived-forms:{}", labels.derived.min(9)));
    rep.label(if avoid { "excluded_by_construction:template-capture" } else { "template-names-in-pool" });
    judge(&forms, &mut rep);
    rep
}

// ------------------------------------------------------------------------------------
// exhaustive family: every derived form in every sub-form position of every derived form

fn tk(k: &mut i32, e: Expr) -> Expr {
    *k += 1;
    Expr::Tick(*k, Box::new(e))
}

/// inner forms, each producing an integer, with ticking sub-forms; `v` selects taken / not-taken variants
fn inner_forms(k: &mut i32) -> Vec<(&'static str, Expr)> {
    let mut out = vec![];
    for test in [true, false] {
        let t = |k: &mut i32| tk(k, Expr::Bool(test));
        out.push(("begin", Expr::Begin(vec![tk(k, Expr::Int(1)), tk(k, Expr::Int(2))])));
        out.push(("let", Expr::Let(vec![("a".into(), tk(k, Expr::Int(1))), ("b".into(), tk(k, Expr::Int(2)))], body1(tk(k, app("+", vec![var("a"), var("b")]))))));
        out.push(("let*", Expr::LetStar(vec![("a".into(), tk(k, Expr::Int(1))), ("b".into(), tk(k, app("+", vec![var("a"), Expr::Int(1)])))], body1(tk(k, app("*", vec![var("a"), var("b")]))))));
        out.push(("cond", Expr::Cond(vec![Clause::Then(t(k), vec![tk(k, Expr::Int(1))]), Clause::Then(tk(k, Expr::Bool(true)), vec![tk(k, Expr::Int(2))])], Some(vec![tk(k, Expr::Int(3))]))));
        out.push(("cond=>", Expr::Cond(vec![Clause::Arrow(if test { tk(k, Expr::Int(5)) } else { tk(k, Expr::Bool(false)) }, Expr::Lambda(Formals { fixed: vec!["v".into()], rest: None }, body1(tk(k, app("+", vec![var("v"), Expr::Int(1)])))))], Some(vec![tk(k, Expr::Int(3))]))));
        out.push(("cond-test-only", Expr::Cond(vec![Clause::Test(if test { tk(k, Expr::Int(7)) } else { tk(k, Expr::Bool(false)) })], Some(vec![tk(k, Expr::Int(3))]))));
        out.push(("case", Expr::Case(Box::new(tk(k, Expr::Int(if test { 2 } else { 9 }))), vec![(vec![Datum::Int(1), Datum::Int(2)], CaseBody::Exprs(vec![tk(k, Expr::Int(10))])), (vec![Datum::Int(3)], CaseBody::Exprs(vec![tk(k, Expr::Int(20))]))], Some(CaseBody::Exprs(vec![tk(k, Expr::Int(30))])))));
        out.push(("case=>", Expr::Case(Box::new(tk(k, Expr::Int(if test { 2 } else { 9 }))), vec![(vec![Datum::Int(2)], CaseBody::Arrow(Box::new(Expr::Lambda(Formals { fixed: vec!["v".into()], rest: None }, body1(tk(k, app("*", vec![var("v"), Expr::Int(2)])))))))], Some(CaseBody::Arrow(Box::new(Expr::Lambda(Formals { fixed: vec!["v".into()], rest: None }, body1(tk(k, app("-", vec![var("v")]))))))))));
        out.push(("and", Expr::And(vec![t(k), tk(k, Expr::Int(4))])));
        out.push(("or", Expr::Or(vec![if test { tk(k, Expr::Int(6)) } else { tk(k, Expr::Bool(false)) }, tk(k, Expr::Int(4))])));
        out.push(("when", Expr::When(Box::new(t(k)), vec![tk(k, Expr::Int(1)), tk(k, Expr::Int(8))])));
        out.push(("unless", Expr::Unless(Box::new(t(k)), vec![tk(k, Expr::Int(1)), tk(k, Expr::Int(9))])));
    }
    out
}

/// outer contexts with one hole; each returns the list of (position name, program expression)
fn outer_contexts(k: &mut i32, hole: &Expr) -> Vec<(&'static str, Expr)> {
    let h = || hole.clone();
    let lam1 = |k: &mut i32| Expr::Lambda(Formals { fixed: vec!["w".into()], rest: None }, body1(tk(k, var("w"))));
    vec![
        ("begin/first", Expr::Begin(vec![h(), tk(k, Expr::Int(0))])),
        ("begin/last", Expr::Begin(vec![tk(k, Expr::Int(0)), h()])),
        ("let/init", Expr::Let(vec![("p".into(), h()), ("q".into(), tk(k, Expr::Int(2)))], body1(tk(k, app("list", vec![var("p"), var("q")]))))),
        ("let/body", Expr::Let(vec![("p".into(), tk(k, Expr::Int(1)))], body1(h()))),
        ("let*/init", Expr::LetStar(vec![("p".into(), tk(k, Expr::Int(1))), ("q".into(), h())], body1(tk(k, app("list", vec![var("p"), var("q")]))))),
        ("let*/body", Expr::LetStar(vec![("p".into(), tk(k, Expr::Int(1))), ("q".into(), tk(k, Expr::Int(2)))], body1(h()))),
        ("cond/test", Expr::Cond(vec![Clause::Then(h(), vec![tk(k, Expr::Int(1))])], Some(vec![tk(k, Expr::Int(2))]))),
        ("cond/result", Expr::Cond(vec![Clause::Then(tk(k, Expr::Bool(true)), vec![h()])], Some(vec![tk(k, Expr::Int(2))]))),
        ("cond/skipped-result", Expr::Cond(vec![Clause::Then(tk(k, Expr::Bool(false)), vec![h()])], Some(vec![tk(k, Expr::Int(2))]))),
        ("cond/else", Expr::Cond(vec![Clause::Then(tk(k, Expr::Bool(false)), vec![tk(k, Expr::Int(1))])], Some(vec![h()]))),
        ("cond/=>test", Expr::Cond(vec![Clause::Arrow(h(), lam1(k))], Some(vec![tk(k, Expr::Int(2))]))),
        ("cond/test-only", Expr::Cond(vec![Clause::Test(h())], Some(vec![tk(k, Expr::Int(2))]))),
        ("case/key", Expr::Case(Box::new(h()), vec![(vec![Datum::Int(1), Datum::Int(4)], CaseBody::Exprs(vec![tk(k, Expr::Int(1))]))], Some(CaseBody::Exprs(vec![tk(k, Expr::Int(2))])))),
        ("case/result", Expr::Case(Box::new(tk(k, Expr::Int(1))), vec![(vec![Datum::Int(1)], CaseBody::Exprs(vec![h()]))], Some(CaseBody::Exprs(vec![tk(k, Expr::Int(2))])))),
        ("case/else", Expr::Case(Box::new(tk(k, Expr::Int(5))), vec![(vec![Datum::Int(1)], CaseBody::Exprs(vec![tk(k, Expr::Int(1))]))], Some(CaseBody::Exprs(vec![h()])))),
        ("and/first", Expr::And(vec![h(), tk(k, Expr::Int(1))])),
        ("and/last", Expr::And(vec![tk(k, Expr::Int(1)), h()])),
        ("or/first", Expr::Or(vec![h(), tk(k, Expr::Int(1))])),
        ("or/last", Expr::Or(vec![tk(k, Expr::Bool(false)), h()])),
        ("when/test", Expr::When(Box::new(h()), vec![tk(k, Expr::Int(1)), tk(k, Expr::Int(2))])),
        ("when/body", Expr::When(Box::new(tk(k, Expr::Bool(true))), vec![tk(k, Expr::Int(1)), h()])),
        ("unless/test", Expr::Unless(Box::new(h()), vec![tk(k, Expr::Int(1)), tk(k, Expr::Int(2))])),
        ("unless/body", Expr::Unless(Box::new(tk(k, Expr::Bool(false))), vec![tk(k, Expr::Int(1)), h()])),
        ("procedure-body", Expr::App(Box::new(Expr::Lambda(Formals { fixed: vec!["z".into()], rest: None }, Box::new(Body { defs: vec![], exprs: vec![tk(k, var("z")), h()] }))), vec![tk(k, Expr::Int(3))])),
    ]
}

/// every cond of 1-3 clauses over {(test e), (test), (test => f)} x {test true, test false}, with and without else
pub fn cond_shapes() -> Vec<(String, Vec<Form>)> {
    let mut out = vec![];
    for len in 1..=3usize {
        for code in 0..6usize.pow(len as u32) {
            for with_else in [false, true] {
                let mut k = 0;
                let mut clauses = vec![];
                let mut name = String::new();
                let mut x = code;
                for ci in 0..len {
                    let (kind, truth) = ((x % 6) / 2, (x % 6) % 2 == 0);
                    x /= 6;
                    let test = if truth { tk(&mut k, Expr::Int(10 + ci as i32)) } else { tk(&mut k, Expr::Bool(false)) };
                    name.push_str(&format!("{}{} ", ["then", "test-only", "=>"][kind], if truth { "+" } else { "-" }));
                    clauses.push(match kind {
                        0 => Clause::Then(test, vec![tk(&mut k, Expr::Int(100 + ci as i32))]),
                        1 => Clause::Test(test),
                        _ => Clause::Arrow(test, Expr::Lambda(Formals { fixed: vec!["v".into()], rest: None }, body1(tk(&mut k, app("list", vec![var("v"), Expr::Int(ci as i32)]))))),
                    });
                }
                let els = if with_else { Some(vec![tk(&mut k, Expr::Int(999))]) } else { None };
                let e = app("list", vec![Expr::Cond(clauses, els), tk(&mut k, Expr::Int(0))]);
                out.push((format!("cond {}{}", name, if with_else { "else" } else { "" }), vec![Form::Expr(e)]));
            }
        }
    }
    out
}

/// every case of 1-3 clauses over {body, => f} x {key listed, key not listed}, atom and compound key, else variants
pub fn case_shapes() -> Vec<(String, Vec<Form>)> {
    let mut out = vec![];
    for len in 1..=3usize {
        for code in 0..4usize.pow(len as u32) {
            for els_kind in 0..3 {
                for compound in [false, true] {
                    let mut k = 0;
                    let mut clauses = vec![];
                    let mut name = String::new();
                    let mut x = code;
                    for ci in 0..len {
                        let (arrow, hit) = ((x % 4) / 2 == 1, (x % 4) % 2 == 0);
                        x /= 4;
                        let keys = if hit { vec![Datum::Int(50 + ci as i32), Datum::Int(7)] } else { vec![Datum::Int(50 + ci as i32), Datum::Sym("q".into())] };
                        name.push_str(&format!("{}{} ", if arrow { "=>" } else { "body" }, if hit { "+" } else { "-" }));
                        let body = if arrow {
                            CaseBody::Arrow(Box::new(Expr::Lambda(Formals { fixed: vec!["v".into()], rest: None }, body1(tk(&mut k, app("list", vec![var("v"), Expr::Int(ci as i32)]))))))
                        } else {
                            CaseBody::Exprs(vec![tk(&mut k, Expr::Int(100 + ci as i32))])
                        };
                        clauses.push((keys, body));
                    }
                    let els = match els_kind {
                        0 => None,
                        1 => Some(CaseBody::Exprs(vec![tk(&mut k, Expr::Int(999))])),
                        _ => Some(CaseBody::Arrow(Box::new(Expr::Lambda(Formals { fixed: vec!["v".into()], rest: None }, body1(tk(&mut k, app("list", vec![var("v"), Expr::Int(-1)]))))))),
                    };
                    let key = if compound { tk(&mut k, app("+", vec![Expr::Int(3), Expr::Int(4)])) } else { Expr::Int(7) };
                    let e = app("list", vec![Expr::Case(Box::new(key), clauses, els), tk(&mut k, Expr::Int(0))]);
                    out.push((format!("case{} {}else:{}", if compound { "(compound key)" } else { "" }, name, els_kind), vec![Form::Expr(e)]));
                }
            }
        }
    }
    out
}

/// binding forms in tail position of a procedure whose frame already holds the rebound name, captured earlier by a closure
pub fn tail_binding_family() -> Vec<(String, Vec<Form>)> {
    let lam = |fixed: &[&str], body: Body| Expr::Lambda(Formals { fixed: fixed.iter().map(|s| s.to_string()).collect(), rest: None }, Box::new(body));
    let getter = |v: &str| Def { name: "get".into(), value: lam(&[], Body { defs: vec![], exprs: vec![var(v)] }), sugar: true };
    let pair = |v: &str| app("list", vec![var(v), app("get", vec![])]);
    let mut out = vec![];
    let mk = |name: &str, v: &str, tail: Expr| -> (String, Vec<Form>) {
        // ((lambda (v) (define (get) v) TAIL) 1)
        (name.to_string(), vec![Form::Expr(Expr::App(Box::new(lam(&[v], Body { defs: vec![getter(v)], exprs: vec![tail] })), vec![Expr::Int(1)]))])
    };
    out.push(mk("tail let rebinding a parameter", "v", Expr::Let(vec![("v".into(), Expr::Int(2))], body1(pair("v")))));
    out.push(mk("tail let* rebinding a parameter", "v", Expr::LetStar(vec![("v".into(), Expr::Int(2)), ("w".into(), var("v"))], body1(app("list", vec![var("v"), var("w"), app("get", vec![])])))));
    out.push(mk("tail begin then let", "v", Expr::Begin(vec![Expr::Int(0), Expr::Let(vec![("v".into(), Expr::Int(3))], body1(pair("v")))])));
    out.push(mk("tail cond clause with let", "v", Expr::Cond(vec![Clause::Then(Expr::Bool(true), vec![Expr::Let(vec![("v".into(), Expr::Int(4))], body1(pair("v")))])], None)));
    out.push(mk("tail when with let", "v", Expr::When(Box::new(Expr::Bool(true)), vec![Expr::Int(0), Expr::Let(vec![("v".into(), Expr::Int(5))], body1(pair("v")))])));
    out.push(mk("tail immediately applied lambda", "v", Expr::App(Box::new(lam(&["v"], Body { defs: vec![], exprs: vec![pair("v")] })), vec![Expr::Int(6)])));
    out.push(mk("non-tail let (control)", "v", app("car", vec![app("list", vec![Expr::Let(vec![("v".into(), Expr::Int(2))], body1(pair("v")))])])));
    // an internal definition of the enclosing body rebound by a tail let
    out.push((
        "tail let rebinding an internal definition".to_string(),
        vec![Form::Expr(Expr::App(
            Box::new(lam(
                &[],
                Body {
                    defs: vec![Def { name: "n".into(), value: Expr::Int(1), sugar: false }, getter("n")],
                    exprs: vec![Expr::Let(vec![("n".into(), Expr::Int(7))], body1(pair("n")))],
                },
            )),
            vec![],
        ))],
    ));
    // case over symbols that are also keywords of the bundled macros
    let kw = |s: &str| Datum::Sym(s.to_string());
    for key in ["else", "=>", "if", "zz"] {
        let e = Expr::Case(
            Box::new(Expr::Quote(kw(key))),
            vec![
                (vec![kw("if"), kw("then"), kw("else")], CaseBody::Exprs(vec![Expr::Quote(kw("branch-keyword"))])),
                (vec![kw("->"), kw("=>")], CaseBody::Exprs(vec![Expr::Quote(kw("arrow"))])),
            ],
            Some(CaseBody::Exprs(vec![Expr::Quote(kw("other"))])),
        );
        out.push((format!("case with keyword symbols as data, key {}", key), vec![Form::Expr(e)]));
    }
    // case selects with eqv?: a freshly made list or vector is not eqv? to a structurally equal datum of a clause
    let hit = |s: &str| CaseBody::Exprs(vec![Expr::Quote(kw(s))]);
    let one_two = Datum::List(vec![Datum::Int(1), Datum::Int(2)], None);
    out.push((
        "case: fresh list key, equal list datum".into(),
        vec![Form::Expr(Expr::Case(Box::new(app("list", vec![Expr::Int(1), Expr::Int(2)])), vec![(vec![one_two.clone()], hit("list-datum"))], Some(hit("miss"))))],
    ));
    out.push((
        "case: fresh vector key, equal vector datum".into(),
        vec![Form::Expr(Expr::Case(Box::new(app("vector", vec![Expr::Int(1)])), vec![(vec![Datum::Vector(vec![Datum::Int(1)]), Datum::Int(5)], hit("vector-datum"))], Some(hit("miss"))))],
    ));
    out.push((
        "case: fresh list key, => receiver must not run".into(),
        vec![Form::Expr(Expr::Case(
            Box::new(app("cons", vec![Expr::Int(1), Expr::Quote(Datum::List(vec![Datum::Int(2)], None))])),
            vec![(vec![one_two.clone(), Datum::Int(7)], CaseBody::Arrow(Box::new(lam(&["v"], Body { defs: vec![], exprs: vec![Expr::Tick(1, Box::new(Expr::Quote(kw("called"))))] }))))],
            Some(hit("miss")),
        ))],
    ));
    out.push((
        "case: empty list key and datum".into(),
        vec![Form::Expr(Expr::Case(Box::new(Expr::Quote(Datum::List(vec![], None))), vec![(vec![Datum::List(vec![], None)], hit("nil"))], Some(hit("miss"))))],
    ));
    // an error raised by a body form that is not the last one ends the whole form: the forms after it do not run
    let boom = || app("car", vec![Expr::Quote(Datum::List(vec![], None))]);
    let seq = || vec![Expr::Tick(1, Box::new(Expr::Int(0))), boom(), Expr::Tick(2, Box::new(Expr::Quote(kw("after"))))];
    let bodies: Vec<(&str, Expr)> = vec![
        ("begin", Expr::Begin(seq())),
        ("let", Expr::Let(vec![("q".into(), Expr::Int(1))], Box::new(Body { defs: vec![], exprs: seq() }))),
        ("let*", Expr::LetStar(vec![("q".into(), Expr::Int(1)), ("r".into(), var("q"))], Box::new(Body { defs: vec![], exprs: seq() }))),
        ("when", Expr::When(Box::new(Expr::Bool(true)), seq())),
        ("unless", Expr::Unless(Box::new(Expr::Bool(false)), seq())),
        ("cond clause", Expr::Cond(vec![Clause::Then(Expr::Bool(true), seq())], None)),
        ("cond else", Expr::Cond(vec![Clause::Then(Expr::Bool(false), vec![Expr::Int(1)])], Some(seq()))),
        ("case clause", Expr::Case(Box::new(Expr::Int(1)), vec![(vec![Datum::Int(1)], CaseBody::Exprs(seq()))], None)),
        ("case else", Expr::Case(Box::new(Expr::Int(1)), vec![(vec![Datum::Int(2)], CaseBody::Exprs(vec![Expr::Int(0)]))], Some(CaseBody::Exprs(seq())))),
        ("lambda body", Expr::App(Box::new(lam(&[], Body { defs: vec![], exprs: seq() })), vec![])),
        ("nested begin in let", Expr::Let(vec![("q".into(), Expr::Int(1))], body1(Expr::Begin(vec![Expr::Begin(seq()), Expr::Tick(3, Box::new(Expr::Int(9)))])))),
    ];
    for (name, e) in bodies {
        out.push((format!("error in a non-final body form: {}", name), vec![Form::Expr(e), Form::Expr(Expr::Quote(kw("next-form")))]));
    }
    // a case with nothing but an else clause still evaluates its key, once
    let ticking_key = |k: i32| Expr::Tick(k, Box::new(app("car", vec![Expr::Quote(Datum::List(vec![Datum::Int(4)], None))])));
    out.push(("case with only an else clause, compound key".into(), vec![Form::Expr(Expr::Case(Box::new(ticking_key(1)), vec![], Some(CaseBody::Exprs(vec![Expr::Tick(2, Box::new(Expr::Quote(kw("fallback"))))]))))]));
    out.push((
        "case with only an else => clause, compound key".into(),
        vec![Form::Expr(Expr::Case(Box::new(ticking_key(1)), vec![], Some(CaseBody::Arrow(Box::new(lam(&["v"], Body { defs: vec![], exprs: vec![app("list", vec![var("v")])] }))))))],
    ));
    out.push((
        "case with only an else clause, key with an effect".into(),
        vec![
            Form::Define(Def { name: "hits".into(), value: Expr::Int(0), sugar: false }),
            Form::Expr(Expr::Case(
                Box::new(Expr::Begin(vec![Expr::Set("hits".into(), Box::new(app("+", vec![var("hits"), Expr::Int(1)]))), var("hits")])),
                vec![],
                Some(CaseBody::Exprs(vec![Expr::Quote(kw("fallback"))])),
            )),
            Form::Expr(var("hits")),
        ],
    ));
    // a body whose first form is a call of a call: ((mk 1) (id k)) is a list of two-element lists, like a binding list
    let mk = Form::Define(Def { name: "mk".into(), value: lam(&["a"], Body { defs: vec![], exprs: vec![lam(&["b"], Body { defs: vec![], exprs: vec![Expr::Tick(1, Box::new(app("list", vec![var("a"), var("b")])))] })] }), sugar: true });
    let idp = Form::Define(Def { name: "id".into(), value: lam(&["v"], Body { defs: vec![], exprs: vec![var("v")] }), sugar: true });
    let curried = |arg: Expr| Expr::App(Box::new(app("mk", vec![Expr::Int(1)])), vec![app("id", vec![arg])]);
    let body2 = |first: Expr| Box::new(Body { defs: vec![], exprs: vec![first, app("list", vec![var("k"), Expr::Int(0)])] });
    out.push(("let whose body starts with a curried call".into(), vec![mk.clone(), idp.clone(), Form::Expr(Expr::Let(vec![("k".into(), Expr::Int(3))], body2(curried(var("k")))))]));
    out.push(("let* whose body starts with a curried call".into(), vec![mk.clone(), idp.clone(), Form::Expr(Expr::LetStar(vec![("j".into(), Expr::Int(2)), ("k".into(), var("j"))], body2(curried(var("k")))))]));
    out.push(("let with two bindings and a curried call".into(), vec![mk.clone(), idp.clone(), Form::Expr(Expr::Let(vec![("k".into(), Expr::Int(3)), ("m".into(), Expr::Int(4))], body2(curried(var("m")))))]));
    out.push(("empty let whose body starts with a curried call".into(), vec![mk.clone(), idp.clone(), Form::Define(Def { name: "k".into(), value: Expr::Int(9), sugar: false }), Form::Expr(Expr::Let(vec![], body2(curried(Expr::Int(5)))))]));
    // r7rs has no reserved words: a variable may be named like a derived form and is then an ordinary variable
    for (a, b) in [("begin", "end"), ("when", "unless"), ("case", "and"), ("let", "or"), ("cond", "else")] {
        out.push((
            format!("variables named {} and {} bound by let", a, b),
            vec![Form::Expr(Expr::Let(vec![(a.into(), Expr::Int(3)), (b.into(), Expr::Int(10))], body1(app("-", vec![var(b), var(a)]))))],
        ));
        out.push((
            format!("parameters named {} and {}", a, b),
            vec![Form::Expr(Expr::App(Box::new(lam(&[a, b], Body { defs: vec![], exprs: vec![app("list", vec![var(a), var(b)])] })), vec![Expr::Int(1), Expr::Int(2)]))],
        ));
    }
    out
}

/// let* scopes (each binding in a scope of its own, a body with definitions in one more) and flat derived forms with
/// several hundred sub-forms
pub fn scope_and_size_family() -> Vec<(String, Vec<Form>)> {
    let lam0 = |e: Expr| Expr::Lambda(Formals { fixed: vec![], rest: None }, body1(e));
    let kw = |s: &str| Expr::Quote(Datum::Sym(s.to_string()));
    let call = |f: &str| app(f, vec![]);
    let mut out: Vec<(String, Vec<Form>)> = vec![];
    out.push((
        "let*: a closure made by an earlier initialiser does not see a later binding".into(),
        vec![
            Form::Define(Def { name: "b".into(), value: kw("outer"), sugar: false }),
            Form::Expr(Expr::LetStar(vec![("f".into(), lam0(var("b"))), ("b".into(), kw("inner"))], body1(app("list", vec![call("f"), var("b")])))),
        ],
    ));
    out.push((
        "let*: rebinding a name leaves the variable an earlier closure captured".into(),
        vec![Form::Expr(Expr::LetStar(
            vec![("n".into(), Expr::Int(1)), ("get".into(), lam0(var("n"))), ("bump".into(), lam0(Expr::Set("n".into(), Box::new(app("+", vec![var("n"), Expr::Int(1)]))))), ("n".into(), app("+", vec![var("n"), Expr::Int(100)]))],
            Box::new(Body { defs: vec![], exprs: vec![call("bump"), app("list", vec![var("n"), call("get")])] }),
        ))],
    ));
    out.push((
        "let*: a definition at the head of the body shadows the let* variable".into(),
        vec![Form::Expr(Expr::LetStar(
            vec![("v".into(), Expr::Int(5)), ("get".into(), lam0(var("v")))],
            Box::new(Body { defs: vec![Def { name: "v".into(), value: Expr::Int(6), sugar: false }], exprs: vec![app("list", vec![call("get"), var("v")])] }),
        ))],
    ));
    out.push((
        "let: a definition at the head of the body shadows a let variable captured by an initialiser of an inner let".into(),
        vec![Form::Expr(Expr::Let(
            vec![("v".into(), Expr::Int(5))],
            body1(Expr::Let(
                vec![("get".into(), lam0(var("v")))],
                Box::new(Body { defs: vec![Def { name: "v".into(), value: Expr::Int(6), sugar: false }], exprs: vec![app("list", vec![call("get"), var("v")])] }),
            )),
        ))],
    ));
    // an assignment in the body of a binding form reaches the innermost variable of that name, never an outer one
    let setv = |n: &str, e: Expr| Expr::Set(n.into(), Box::new(e));
    out.push((
        "let: set! of a variable that shadows a global".into(),
        vec![
            Form::Define(Def { name: "v".into(), value: Expr::Int(1), sugar: false }),
            Form::Expr(Expr::Let(vec![("v".into(), Expr::Int(10))], Box::new(Body { defs: vec![], exprs: vec![setv("v", app("+", vec![var("v"), Expr::Int(5)])), var("v")] }))),
            Form::Expr(var("v")),
        ],
    ));
    out.push((
        "let*: set! of a name bound twice".into(),
        vec![Form::Expr(Expr::LetStar(
            vec![("a".into(), Expr::Int(1)), ("get-a".into(), lam0(var("a"))), ("a".into(), app("+", vec![var("a"), Expr::Int(1)]))],
            Box::new(Body { defs: vec![], exprs: vec![setv("a", app("*", vec![var("a"), Expr::Int(10)])), app("list", vec![var("a"), call("get-a")])] }),
        ))],
    ));
    out.push((
        "nested let: set! of the inner of two variables of one name".into(),
        vec![Form::Expr(Expr::Let(
            vec![("w".into(), Expr::Int(1))],
            Box::new(Body {
                defs: vec![],
                exprs: vec![
                    Expr::Let(vec![("w".into(), Expr::Int(2))], Box::new(Body { defs: vec![], exprs: vec![setv("w", Expr::Int(3)), var("w")] })),
                    var("w"),
                ],
            }),
        ))],
    ));
    out.push((
        "when / cond bodies: set! of a let variable that shadows a parameter".into(),
        vec![
            Form::Define(Def {
                name: "shadowing".into(),
                value: Expr::Lambda(
                    Formals { fixed: vec!["p".into()], rest: None },
                    body1(Expr::Let(
                        vec![("p".into(), app("+", vec![var("p"), Expr::Int(100)]))],
                        Box::new(Body {
                            defs: vec![],
                            exprs: vec![
                                Expr::When(Box::new(Expr::Bool(true)), vec![setv("p", app("+", vec![var("p"), Expr::Int(1)]))]),
                                Expr::Cond(vec![Clause::Then(Expr::Bool(true), vec![setv("p", app("+", vec![var("p"), Expr::Int(1)])), var("p")])], None),
                            ],
                        }),
                    )),
                ),
                sugar: true,
            }),
            Form::Expr(app("shadowing", vec![Expr::Int(5)])),
        ],
    ));
    // only #f is false, wherever the test sits (top level, tail position of a body, operand)
    let nil = || Expr::Quote(Datum::List(vec![], None));
    let truthy_forms: Vec<(&str, Box<dyn Fn(Expr) -> Expr>)> = vec![
        ("or", Box::new(move |t| Expr::Or(vec![t, kw("second")]))),
        ("and", Box::new(move |t| Expr::And(vec![t, kw("last")]))),
        ("cond", Box::new(move |t| Expr::Cond(vec![Clause::Then(t, vec![kw("first")])], Some(vec![kw("else")])))),
        ("when", Box::new(move |t| Expr::When(Box::new(t), vec![kw("ran")]))),
        ("unless", Box::new(move |t| Expr::Unless(Box::new(t), vec![kw("ran")]))),
        ("cond =>", Box::new(move |t| Expr::Cond(vec![Clause::Arrow(t, var("list"))], Some(vec![kw("else")])))),
    ];
    for (name, mk) in &truthy_forms {
        for (tname, test) in [("the empty list", nil()), ("zero", Expr::Int(0)), ("an unspecified value", Expr::If(Box::new(Expr::Bool(false)), Box::new(Expr::Bool(false)), None))] {
            if *name == "cond =>" && tname == "an unspecified value" {
                continue;
            }
            out.push((format!("{} with {} as test, at top level", name, tname), vec![Form::Expr(mk(test.clone()))]));
            out.push((format!("{} with {} as test, last form of a procedure body", name, tname), vec![Form::Expr(Expr::App(Box::new(lam0(mk(test.clone()))), vec![]))]));
            out.push((format!("{} with {} as test, last form of a let body", name, tname), vec![Form::Expr(Expr::Let(vec![("q".into(), Expr::Int(1))], body1(mk(test.clone()))))]));
        }
    }
    // case selects with eqv?: an inexact key never selects an exact datum and vice versa
    let hitk = |s: &str| CaseBody::Exprs(vec![kw(s)]);
    for (kname, key) in [("2.0", Expr::Real("2.0".into())), ("(* 1.0 3)", app("*", vec![Expr::Real("1.0".into()), Expr::Int(3)])), ("2", Expr::Int(2)), ("1/2", Expr::Ratio(1, 2)), ("0.5", Expr::Real("0.5".into()))] {
        out.push((
            format!("case: key {} against exact and inexact data", kname),
            vec![Form::Expr(Expr::Case(
                Box::new(key),
                vec![(vec![Datum::Int(1), Datum::Int(2), Datum::Int(3), Datum::Ratio(1, 2)], hitk("exact")), (vec![Datum::Real("2.0".into()), Datum::Real("0.5".into())], hitk("inexact"))],
                Some(hitk("other")),
            ))],
        ));
    }
    for n in [257usize, 258, 300, 700] {
        let ints = |n: usize| (1..=n as i32).map(Expr::Int).collect::<Vec<_>>();
        let mut seq = ints(n);
        seq.insert(n / 2, Expr::Tick(1, Box::new(Expr::Int(0))));
        seq.push(Expr::Tick(2, Box::new(Expr::Int(n as i32))));
        out.push((format!("begin with {} forms", n + 2), vec![Form::Expr(Expr::Begin(seq.clone()))]));
        out.push((format!("when with {} body forms", n + 2), vec![Form::Expr(Expr::When(Box::new(Expr::Bool(true)), seq.clone()))]));
        out.push((format!("unless with {} body forms", n + 2), vec![Form::Expr(Expr::Unless(Box::new(Expr::Bool(false)), seq.clone()))]));
        out.push((format!("cond clause with {} body forms", n + 2), vec![Form::Expr(Expr::Cond(vec![Clause::Then(Expr::Bool(true), seq.clone())], None))]));
        out.push((format!("let body with {} forms", n + 2), vec![Form::Expr(Expr::Let(vec![("q".into(), Expr::Int(1))], Box::new(Body { defs: vec![], exprs: seq.clone() })))]));
        let bindings: Vec<(String, Expr)> = (1..=n).map(|i| (format!("v{}", i), Expr::Int(i as i32))).collect();
        out.push((
            format!("let with {} bindings", n),
            vec![Form::Expr(Expr::Let(bindings, body1(app("list", vec![var("v1"), var(&format!("v{}", n / 2)), var(&format!("v{}", n))]))))],
        ));
        let data: Vec<Datum> = (1..=n as i32).map(Datum::Int).collect();
        for key in [1, n as i32 / 2, n as i32, n as i32 + 1] {
            out.push((
                format!("case clause with {} data, key {}", n, key),
                vec![Form::Expr(Expr::Case(Box::new(Expr::Int(key)), vec![(data.clone(), CaseBody::Exprs(vec![kw("listed")]))], Some(CaseBody::Exprs(vec![kw("other")]))))],
            ));
        }
    }
    out
}

pub fn pair_family() -> Vec<(String, Vec<Form>)> {
    let mut out = vec![];
    let mut k = 0;
    let inners = inner_forms(&mut k);
    for (iname, inner) in &inners {
        for (oname, prog) in outer_contexts(&mut k, inner) {
            out.push((format!("{} in {}", iname, oname), vec![Form::Expr(prog)]));
        }
    }
    out
}

/// witnesses of the recorded finding and regression programs for repaired defects
pub fn witnesses() -> Vec<(String, Vec<Form>)> {
    let l = |bs: Vec<(&str, Expr)>, e: Expr| Expr::Let(bs.into_iter().map(|(n, v)| (n.to_string(), v)).collect(), body1(e));
    let progs: Vec<(&str, Expr)> = vec![
        ("or captures x", l(vec![("x", Expr::Int(5))], Expr::Or(vec![Expr::Bool(false), var("x")]))),
        ("cond => captures temp", l(vec![("temp", Expr::Int(1))], Expr::Cond(vec![Clause::Arrow(Expr::Bool(false), var("car"))], Some(vec![var("temp")])))),
        (
            "cond test-only captures temp",
            l(vec![("temp", Expr::Int(1))], Expr::Cond(vec![Clause::Test(Expr::Bool(false)), Clause::Then(Expr::Bool(true), vec![var("temp")])], None)),
        ),
        (
            "case captures atom-key",
            l(
                vec![("atom-key", Expr::Int(7))],
                Expr::Case(Box::new(app("+", vec![Expr::Int(1), Expr::Int(1)])), vec![(vec![Datum::Int(2)], CaseBody::Exprs(vec![var("atom-key")]))], None),
            ),
        ),
        ("let with no bindings", Expr::Let(vec![], body1(Expr::Int(1)))),
        ("let* with no bindings", Expr::LetStar(vec![], body1(Expr::Int(1)))),
        ("when with one body form", Expr::When(Box::new(Expr::Bool(true)), vec![Expr::Int(1)])),
        ("unless with one body form", Expr::Unless(Box::new(Expr::Bool(false)), vec![Expr::Int(1)])),
        ("begin with one form", Expr::Begin(vec![Expr::Int(1)])),
        ("and/or empty", app("list", vec![Expr::And(vec![]), Expr::Or(vec![])])),
        ("let body with internal definition", Expr::Let(vec![("a".into(), Expr::Int(1))], Box::new(Body { defs: vec![Def { name: "b".into(), value: Expr::Int(2), sugar: false }], exprs: vec![app("+", vec![var("a"), var("b")])] }))),
    ];
    progs.into_iter().map(|(n, e)| (n.to_string(), vec![Form::Expr(e)])).collect()
}

pub fn run(ctx: &Ctx) {
    let wit = witnesses();
    ctx.indexed("witness", wit.len() as u64, 1, |i| {
        let (name, forms) = &wit[i as usize];
        let mut rep = Report::new(format!("{} :: {}", name, program_text(forms)));
        rep.nontrivial = true;
        judge(forms, &mut rep);
        Some(rep)
    });
    ctx.set_rule(
        "programs nesting begin let let* cond(else, =>, test-only) case(else, =>) and or when unless inside each other and \
         inside procedures with ticking sub-forms; (a) the exhaustive family 'every derived form (taken and not-taken \
         variant) in every sub-form position of every derived form' (24 variants x 24 positions), (b) random type-directed \
         programs using the identifier pool that includes the names the bundled templates introduce (x temp atom-key). \
         Oracle: the reference evaluator's direct R7RS semantics, value and tick trace per form. Non-trivial = >= 2 nested \
         derived forms and >= 1 sub-form that must be skipped.",
    );
    let fam = pair_family();
    ctx.indexed("pairs", fam.len() as u64, 1, |i| {
        let (name, forms) = &fam[i as usize];
        let mut rep = Report::new(format!("{} :: {}", name, program_text(forms)));
        rep.nontrivial = true;
        judge(forms, &mut rep);
        Some(rep)
    });
    for (sub, fam) in [("cond-shapes", cond_shapes()), ("case-shapes", case_shapes()), ("tail-binding-forms", tail_binding_family()), ("scopes-and-large-forms", scope_and_size_family())] {
        ctx.indexed(sub, fam.len() as u64, 1, |i| {
            let (name, forms) = &fam[i as usize];
            let mut text = program_text(forms);
            crate::sut::truncate_chars(&mut text, 600);
            let mut rep = Report::new(format!("{} :: {}", name, text));
            rep.nontrivial = true;
            judge(forms, &mut rep);
            Some(rep)
        });
    }
    let cases = ctx.tier.pick(10_000, 60_000);
    let depth = ctx.tier.pick(4, 6);
    ctx.random("programs", cases, 800, |ch| random_case(ch, depth));
}
