//! C07 — no input can crash the interpreter.
use crate::runner::{Chooser, Ctx, Report};
use crate::sut::{self, Budget, Outcome, SVal, Session};

pub const ALPHABET20: [char; 20] = [
    '(', ')', '\'', '.', '"', ';', '|', '#', '\\', 'a', 'e', '1', '0', '+', '-', '/', ' ', '\n', ',', '`',
];

pub const KEYWORDS: &[&str] = &[
    "define", "lambda", "if", "quote", "set!", "define-syntax", "syntax-rules", "import", "define-library", "export",
    "begin", "let", "let*", "cond", "case", "and", "or", "when", "unless", "else", "=>", "...", "_", "only", "except",
    "prefix", "rename",
];

pub const BUILTINS: &[&str] = &[
    "apply", "car", "cdr", "eqv?", "eq?", "cons", "boolean?", "char?", "number?", "string?", "symbol?", "pair?",
    "procedure?", "vector?", "not", "boolean=?", "+", "-", "*", "/", "=", "<", "<=", ">", ">=", "min", "max", "abs",
    "sqrt", "exp", "ln", "log", "sin", "cos", "tan", "asin", "acos", "atan", "atan2", "floor", "ceiling", "exact",
    "floor-quotient", "floor-remainder", "newline", "vector", "make-vector", "vector-length", "vector-ref",
    "vector-set!", "caar", "cadr", "cdar", "cddr", "caaar", "caadr", "cadar", "caddr", "cdaar", "cdadr", "cddar",
    "cdddr", "list", "make-list", "null?", "append", "memq", "memv", "map", "for-each", "fold-left", "fold-right",
    "list-tail", "list-ref", "last-pair", "head", "atom?", "equal?", "list?", "display",
];

pub const LITERALS: &[&str] = &[
    "0", "1", "-1", "2", "3", "42", "2147483647", "-2147483648", "2147483648", "99999999999", "65536", "-65536",
    "1/2", "-1/2", "1/0", "3/-4", "1/", "2147483647/2", "1/4294967295", "1/4294967296", "6/4", "1e", "1e400", "1e5",
    "1.5", "-0.0", ".5", "-.", "+.5", "-.5e", "1.e2", "1.5e-3", "#t", "#f", "#true", "#\\a", "#\\(", "#\\", "#\\space",
    "\"str\"", "\"a\\nb\"", "\"\\x41;\"", "\"\\q\"", "\"(\"", "\"", "'", "`", ",", ",@", ".", "#(", "#u8(", "#u", "#",
    "\"\\xD800;\"", "\"a\\xdfff;b\"", "\"\\x110000;\"", "\"\\xFFFFFFFFFF;\"", "\"\\x;\"", "\"\\x41\"", "#\\xD800", "#\\x110000", "#\\x41", "|\\xD800;|",
    "|", "|a b|", "'()", "'(1 2 3)", "'(1 . 2)", "'#(1 2)", "#(1 2)", "()", "(1 . 2)", "(a . b)",
];

pub const NAMES: &[&str] = &["x", "y", "z", "f", "g", "h", "lst", "vec", "n", "k", "acc", "temp", "m"];

pub const LIBNAMES: &[&str] = &["(scheme base)", "(scheme write)", "(ruschm base)", "(foo)", "(foo bar)", "(scheme)", "(1 2)", "()", "(..)", "(foo ..)", "(foo /)", "(/)", "(foo.v2)", "(foo . bar)", "(|| a)", "(foo |a/b|)"];

/// form templates: $E expression, $N name, $T any token, $S several expressions, $F formals, $I import set
pub const TEMPLATES: &[&str] = &[
    "(define $N $E)",
    "(define ($N $F) $S)",
    "(define ($N . $N) $S)",
    "(define ($N $N $N) $E)",
    "(define $N)",
    "(define ($N) )",
    "(define ($T $T) $E)",
    "(lambda ($F) $S)",
    "(lambda $N $E)",
    "(lambda ($N . $N) $E)",
    "(lambda ($T $T) $E)",
    "(lambda (($N) $N) $N)",
    "(lambda ($N ()) $N)",
    "((lambda ($N ()) $N) $E $E)",
    "((lambda (() $N) $N) $E $E)",
    "(define ($N $N ()) $N)",
    "(define ($N . ()) $E)",
    "((lambda ($F) $S) $S)",
    "(if $E $E $E)",
    "(if $E $E)",
    "(if $E)",
    "(quote $T)",
    "'$T",
    "'($S . $T)",
    "(set! $N $E)",
    "(set! $T $E)",
    "(begin $S)",
    "(let (($N $E) ($N $E)) $S)",
    "(let ($T) $S)",
    "(let () $E)",
    "(let* (($N $E) ($N $E)) $S)",
    "(let* () $E)",
    "(cond ($E $E) ($E => $E) ($E) (else $E))",
    "(cond ($E $S) $T)",
    "(cond)",
    "(case $E (($T $T) $E) (else $E))",
    "(case $E (($T) => $E) (else => $E))",
    "(case ($N $E) (($T) $E))",
    "(and $S)",
    "(or $S)",
    "(when $E $S)",
    "(unless $E $S)",
    "(when $E)",
    "(define-syntax $N (syntax-rules () (($N $N ...) ($T $N ...))))",
    "(define-syntax $N (syntax-rules ($N) (($N $T $N) $E) (($N $N ...) '($N ...))))",
    "(define-syntax $N (syntax-rules () (($T $T) $T)))",
    "(define-syntax $N (syntax-rules () (($N ($N $N) ...) (list $N ... $N ...))))",
    "(define-syntax $N $T)",
    "(define-syntax $N (syntax-rules $T))",
    "(define-syntax $N (syntax-rules () ((_ $N) $N)))",
    "(define-syntax $N (syntax-rules () (($N $N) (define-syntax $N (syntax-rules () (($N) $E))))))",
    "(define-syntax def-m (syntax-rules () ((def-m name) (define-syntax name (syntax-rules () ((name) $E))))))",
    "(def-m $N)",
    "(define-syntax def-v (syntax-rules () ((def-v name e) (define name e))))",
    "(def-v $N $E)",
    "(define-syntax dot-m (syntax-rules () ((dot-m a b . c) (quote (a b c)))))",
    "(define-syntax dot-v (syntax-rules () ((dot-v (a . b) c ... . d) (list a c ...))))",
    "(dot-m $S)",
    "(dot-m)",
    "(dot-m . $T)",
    "(dot-v $S)",
    "(dot-v ($S) $S)",
    "(import $I)",
    "(import $I $I)",
    "(import $T)",
    "(define-library $L (export $N $N) (import $I) (begin (define $N $E)))",
    "(define-library $L (export (rename $N $N)) (begin $S))",
    "(define-library $T $T)",
    "(apply $E $S)",
    "(apply $E '($S))",
    "(map $E $E)",
    "(for-each $E $E)",
    "(fold-left $E $E $E)",
    "(fold-right $E $E $E)",
    "(vector-ref $E $E)",
    "(vector-set! $E $E $E)",
    "(make-vector $E $E)",
    "(list-tail $E $E)",
    "(append $S)",
    "($N $S)",
    "($E $S)",
    "($T $S)",
    "(($E))",
    "()",
];

fn gen_token(ch: &mut Chooser) -> String {
    match ch.weighted(&[30, 20, 30, 20]) {
        0 => (*ch.pick(NAMES)).to_string(),
        1 => (*ch.pick(KEYWORDS)).to_string(),
        2 => (*ch.pick(LITERALS)).to_string(),
        _ => (*ch.pick(BUILTINS)).to_string(),
    }
}

fn gen_import_set(ch: &mut Chooser, depth: u32) -> String {
    if depth == 0 || ch.chance(1, 2) {
        return (*ch.pick(LIBNAMES)).to_string();
    }
    let inner = gen_import_set(ch, depth - 1);
    match ch.below(5) {
        0 => format!("(only {} {} {})", inner, gen_token(ch), gen_token(ch)),
        1 => format!("(except {} {})", inner, gen_token(ch)),
        2 => format!("(prefix {} {})", inner, gen_token(ch)),
        3 => format!("(rename {} ({} {}) ({} {}))", inner, gen_token(ch), gen_token(ch), gen_token(ch), gen_token(ch)),
        _ => format!("(rename {} {})", inner, gen_token(ch)),
    }
}

pub fn gen_expr(ch: &mut Chooser, depth: u32) -> String {
    if depth == 0 {
        return gen_token(ch);
    }
    match ch.weighted(&[25, 75]) {
        0 => gen_token(ch),
        _ => {
            let t = *ch.pick(TEMPLATES);
            fill(ch, t, depth - 1)
        }
    }
}

fn fill(ch: &mut Chooser, template: &str, depth: u32) -> String {
    let mut out = String::new();
    let mut it = template.chars().peekable();
    while let Some(c) = it.next() {
        if c == '$' {
            match it.next() {
                Some('E') => out.push_str(&gen_expr(ch, depth)),
                Some('N') => out.push_str(*ch.pick(NAMES)),
                Some('T') => out.push_str(&gen_token(ch)),
                Some('S') => {
                    let n = ch.below(4);
                    for i in 0..n {
                        if i > 0 {
                            out.push(' ');
                        }
                        out.push_str(&gen_expr(ch, depth));
                    }
                }
                Some('F') => {
                    let n = ch.below(4);
                    for i in 0..n {
                        if i > 0 {
                            out.push(' ');
                        }
                        out.push_str(*ch.pick(NAMES));
                    }
                    if ch.chance(1, 4) {
                        out.push_str(" . ");
                        out.push_str(*ch.pick(NAMES));
                    }
                }
                Some('I') => out.push_str(&gen_import_set(ch, 2)),
                Some('L') => out.push_str(*ch.pick(LIBNAMES)),
                Some(o) => {
                    out.push('$');
                    out.push(o)
                }
                None => out.push('$'),
            }
        } else {
            out.push(c);
        }
    }
    out
}

/// split text into coarse tokens for token-level mutation
pub fn coarse_tokens(text: &str) -> Vec<String> {
    let cs: Vec<char> = text.chars().collect();
    let mut out = vec![];
    let mut i = 0;
    while i < cs.len() {
        let c = cs[i];
        if c.is_whitespace() {
            i += 1;
        } else if c == ';' {
            while i < cs.len() && cs[i] != '\n' {
                i += 1;
            }
        } else if c == '(' || c == ')' || c == '\'' {
            out.push(c.to_string());
            i += 1;
        } else if c == '"' {
            let mut j = i + 1;
            while j < cs.len() && cs[j] != '"' {
                if cs[j] == '\\' {
                    j += 1;
                }
                j += 1;
            }
            let j = (j + 1).min(cs.len());
            out.push(cs[i..j].iter().collect());
            i = j;
        } else {
            let mut j = i;
            while j < cs.len() && !cs[j].is_whitespace() && cs[j] != '(' && cs[j] != ')' && cs[j] != '"' && cs[j] != ';' {
                j += 1;
            }
            out.push(cs[i..j].iter().collect());
            i = j;
        }
    }
    out
}

pub fn join_tokens(toks: &[String]) -> String {
    let mut out = String::new();
    for (i, t) in toks.iter().enumerate() {
        if i > 0 && t != ")" && toks[i - 1] != "(" && toks[i - 1] != "'" {
            out.push(' ');
        }
        out.push_str(t);
    }
    out
}

/// split a program text into its top-level forms (by parenthesis depth on coarse tokens)
pub fn top_forms(toks: &[String]) -> Vec<String> {
    let mut forms = vec![];
    let mut cur: Vec<String> = vec![];
    let mut depth = 0i32;
    for t in toks {
        cur.push(t.clone());
        if t == "(" || t == "#(" {
            depth += 1;
        } else if t == ")" {
            depth -= 1;
        }
        if depth <= 0 && t != "'" {
            forms.push(join_tokens(&cur));
            cur.clear();
            depth = 0;
        }
    }
    if !cur.is_empty() {
        forms.push(join_tokens(&cur));
    }
    forms
}

fn seeds() -> Vec<(String, String)> {
    let mut v = vec![];
    let dirs = ["/repo/examples", "/repo/tests/test_macros", "/repo/src/parser", "/repo/src/interpreter/library/include/scheme"];
    for d in dirs {
        if let Ok(rd) = std::fs::read_dir(d) {
            let mut ps: Vec<_> = rd.filter_map(|e| e.ok()).map(|e| e.path()).collect();
            ps.sort();
            for p in ps {
                let ext = p.extension().and_then(|e| e.to_str()).unwrap_or("");
                if ext == "scm" || ext == "sld" {
                    if let Ok(t) = std::fs::read_to_string(&p) {
                        v.push((p.display().to_string(), t));
                    }
                }
            }
        }
    }
    for (i, t) in BUILTIN_SEEDS.iter().enumerate() {
        v.push((format!("builtin-seed-{}", i), t.to_string()));
    }
    v
}

const BUILTIN_SEEDS: &[&str] = &[
    "(define vec (vector 1 2 3)) (vector-set! vec vec 0) (vector-ref vec vec) (vector-set! vec (list 'slot vec) 0) (make-vector vec vec) (list-tail vec vec)",
    "(define (fact n) (if (= n 0) 1 (* n (fact (- n 1))))) (fact 5) (define v (make-vector 3 0)) (vector-set! v 1 'a) (vector-ref v 1)",
    "(define-syntax swap! (syntax-rules () ((swap! a b) (let ((tmp a)) (set! a b) (set! b tmp))))) (define p 1) (define q 2) (swap! p q) (list p q)",
    "(define (count . xs) (if (null? xs) 0 (+ 1 (apply count (cdr xs))))) (count 1 2 3) (map (lambda (x) (* x x)) '(1 2 3)) (fold-left + 0 '(1 2 3)) (let* ((a 1) (b (+ a 1))) (cond ((> a b) 'gt) ((= a b) => not) (else (case b ((1 2) 'small) (else 'big)))))",
    "(define (loop i acc) (if (= i 0) acc (loop (- i 1) (+ acc i)))) (loop 100 0) (and 1 2 #f) (or #f 3) (when #t 1 2) (unless #f 1 2) (append '(1) '(2) '(3 4)) (list-tail '(1 2 3) 2) (memv 2 '(1 2 3)) (equal? '(1 (2)) '(1 (2)))",
    "(import (only (scheme base) + car) (prefix (scheme write) w:)) (w:display (+ 1 (car '(2))))",
];

// ------------------------------------------------------------------------------------
// oracle

fn sanity(s: &mut Session, rep: &mut Report, what: &str) {
    let o = s.eval("(quote ok)");
    match o {
        Outcome::Value(SVal::Sym(ref n)) if n == "ok" => {}
        Outcome::Panic { ref site, ref msg } => rep.fail(
            format!("sanity-{}", sut::panic_sig(site, msg)),
            format!("after {}: (quote ok) panicked at {}", what, site),
        ),
        other => rep.fail("sanity-form-wrong", format!("after {}: (quote ok) gave {}", what, other.show())),
    }
}

fn judge_outcome(o: &Outcome, rep: &mut Report, progressed: &mut bool) {
    match o {
        Outcome::Panic { site, msg } => {
            rep.fail(sut::panic_sig(site, msg), format!("panic at {}: {}", site, sut::norm_msg(msg)));
            *progressed = true;
        }
        Outcome::Budget(k) => {
            rep.skipped = Some(format!("budget-{}", k));
            *progressed = true;
        }
        Outcome::Error(e) => {
            // pure lexer rejections are trivial; anything past the lexer is non-trivial
            if !matches!(
                e.tag.as_str(),
                "Syntax::UnrecognizedToken" | "Syntax::UnexpectedEnd" | "Syntax::UnknownEscape" | "Syntax::ImcompleteQuotedIdent"
            ) {
                *progressed = true;
            }
        }
        Outcome::Value(_) | Outcome::NoValue => *progressed = true,
    }
}

/// evaluate the forms one after another on one fresh interpreter in a fresh thread
pub fn judge_forms(forms: Vec<String>, budget: Budget) -> Report {
    let key = forms.join("\n");
    if std::env::var("RV_TRACE").is_ok() {
        eprintln!("TRACE {:?}", key);
    }
    sut::in_thread(move || {
        let mut rep = Report::new(key);
        let mut s = match Session::stdlib() {
            Ok(s) => s.with_budget(budget),
            Err((site, msg)) => {
                rep.fail(format!("construct-{}", sut::panic_sig(&site, &msg)), "interpreter construction panicked");
                return rep;
            }
        };
        let mut progressed = false;
        let mut notes = vec![];
        for f in &forms {
            let o = s.eval(f);
            judge_outcome(&o, &mut rep, &mut progressed);
            notes.push(o.show());
        }
        rep.note = notes.join(" | ");
        if rep.note.len() > 600 {
            crate::sut::truncate_chars(&mut rep.note, 600);
        }
        s.budget = None;
        sanity(&mut s, &mut rep, "the input");
        rep.nontrivial = progressed;
        rep
    })
}

pub fn judge_text(text: &str, budget: Budget) -> Report {
    judge_forms(vec![text.to_string()], budget)
}

fn tmpdir(tag: &str) -> std::path::PathBuf {
    use std::sync::atomic::{AtomicU64, Ordering};
    static N: AtomicU64 = AtomicU64::new(0);
    let d = std::env::temp_dir().join(format!("rv-{}-{}-{}", std::process::id(), tag, N.fetch_add(1, Ordering::SeqCst)));
    let _ = std::fs::remove_dir_all(&d);
    std::fs::create_dir_all(&d).unwrap();
    d
}

/// file cases: (description, bytes of program file or None for "path is a directory" / missing, library bytes)
fn judge_file_case(desc: &str, prog: Option<Vec<u8>>, lib: Option<Vec<u8>>, as_dir: bool) -> Report {
    let desc = desc.to_string();
    sut::in_thread(move || {
        let mut rep = Report::new(format!("file-case: {}", desc));
        let d = tmpdir("c07");
        let path = d.join("prog.scm");
        if as_dir {
            std::fs::create_dir_all(&path).unwrap();
        } else if let Some(b) = &prog {
            std::fs::write(&path, b).unwrap();
        }
        if let Some(b) = &lib {
            std::fs::create_dir_all(d.join("my")).unwrap();
            std::fs::write(d.join("my/lib.sld"), b).unwrap();
        }
        let mut s = Session::bare().unwrap().with_budget(Budget::FUZZ);
        let o = s.eval_file(&path);
        let mut progressed = false;
        judge_outcome(&o, &mut rep, &mut progressed);
        rep.note = o.show();
        s.budget = None;
        sanity(&mut s, &mut rep, "eval_file");
        // the interpreter goes on with ordinary derived forms, and a new interpreter can be made on this thread
        match s.eval("(cond ((car '(#f)) 1) ((null? '()) 2) (else 3))") {
            Outcome::Value(SVal::Num(crate::sut::SNum::Int(2))) | Outcome::Error(_) => {}
            Outcome::Panic { site, msg } => rep.fail(sut::panic_sig(&site, &msg), "a cond form after the file panicked"),
            other => rep.fail("derived-form-broken-after-file", format!("(cond ((car '(#f)) 1) ((null? '()) 2) (else 3)) gave {}", other.show())),
        }
        match Session::stdlib() {
            Ok(mut fresh) => sanity(&mut fresh, &mut rep, "creating a new interpreter after the file"),
            Err((site, msg)) => rep.fail(format!("construct-{}", sut::panic_sig(&site, &msg)), "a new interpreter could not be created after the file was run"),
        }
        rep.nontrivial = true;
        let _ = std::fs::remove_dir_all(&d);
        rep
    })
}

pub fn run(ctx: &Ctx) {
    ctx.set_rule(
        "inputs: (1) every string up to length 4 (thorough: 5 over 16 chars) over a 20-character alphabet, evaluated in \
         batches on one interpreter; (2) grammar-guided token soup (form templates with random holes over the full \
         vocabulary of keywords, builtins, boundary literals), 1-6 forms per case evaluated one by one on one fresh \
         interpreter; (3) token-level mutations of the repository's example programs, test sources and bundled .sld \
         files; (3b) calls of builtins and user procedures with 0-4 arguments from a pool of values that are awkward to \
         render in an error message (the vector being written, structures containing it, long texts of multi-byte characters \
         at every byte alignment, procedures), directly, through apply and in tail position; (4) random unicode/control characters; (5) files: invalid UTF-8, directory, empty, CRLF, as program and \
         as library. Oracle: no panic (identified by call site), and afterwards (quote ok) evaluates to ok on the same \
         interpreter. Non-trivial = the input got past the lexer (a value, a non-lexical error or a panic). Fuel/depth/ \
         allocation budget outcomes are outside the claim and counted under outside_claim.",
    );
    ctx.assume("hook H1 (fuel/depth/alloc budget) only converts non-termination, deep recursion and huge allocations into errors");
    ctx.assume("nesting depth of generated texts is bounded (<= 12 levels), far below the stack available to a 512 MiB thread");

    // (0) witnesses of recorded findings and regression inputs
    let witnesses: Vec<String> = WITNESSES.iter().map(|s| s.to_string()).collect();
    ctx.texts("witness", &witnesses, |t| judge_text(t, Budget::FUZZ));

    // (1) exhaustive short strings
    let (alpha, maxlen): (Vec<char>, u32) = match ctx.tier {
        crate::runner::Tier::Quick => (ALPHABET20.to_vec(), 4),
        crate::runner::Tier::Thorough => (ALPHABET20[..16].to_vec(), 5),
    };
    short_strings(ctx, "short-strings", &alpha, maxlen);
    if ctx.tier == crate::runner::Tier::Thorough {
        short_strings(ctx, "short-strings-20x4", &ALPHABET20, 4);
    }

    // (2) soup
    let n_soup = ctx.tier.pick(12_000, 400_000);
    ctx.random("soup", n_soup, 300, |ch| {
        let n = 1 + ch.below(6);
        let mut forms = vec![];
        // one case in six starts from the macro definitions that several templates use, so that uses meet definitions
        if ch.chance(1, 6) {
            for t in TEMPLATES.iter().filter(|t| t.starts_with("(define-syntax d") && !t.contains('$')) {
                forms.push(t.to_string());
            }
        }
        for _ in 0..n {
            let depth = 1 + ch.below(4) as u32;
            let t = *ch.pick(TEMPLATES);
            let mut f = fill(ch, t, depth);
            // token-level corruption
            if ch.chance(1, 4) {
                let mut toks = coarse_tokens(&f);
                corrupt(ch, &mut toks);
                f = join_tokens(&toks);
            }
            forms.push(f);
        }
        let mut rep = judge_forms(forms, Budget::FUZZ);
        rep.label("soup");
        rep
    });

    // (3) mutations of valid programs
    let seeds = seeds();
    let seed_toks: Vec<Vec<String>> = seeds.iter().map(|(_, t)| coarse_tokens(t)).collect();
    let n_mut = ctx.tier.pick(6_000, 300_000);
    ctx.random("mutate", n_mut, 120, |ch| {
        let si = ch.below(seed_toks.len());
        let mut toks = seed_toks[si].clone();
        // take a window of the seed so that cases stay small
        if toks.len() > 120 {
            let forms = top_forms(&toks);
            let start = ch.below(forms.len());
            let take = 1 + ch.below(4);
            let sel: Vec<String> = forms.iter().skip(start).take(take).cloned().collect();
            toks = coarse_tokens(&sel.join(" "));
        }
        let k = 1 + ch.below(4);
        for _ in 0..k {
            corrupt(ch, &mut toks);
        }
        let per_form = ch.chance(1, 2);
        let forms = if per_form { top_forms(&toks) } else { vec![join_tokens(&toks)] };
        let mut rep = judge_forms(forms, Budget::FUZZ);
        rep.label("mutate");
        rep
    });

    // (3b) calls whose error message has to render awkward values: the vector being written, self-containing
    // structures, long texts of multi-byte characters at every alignment, procedures; wrong arity and wrong types
    let n_err = ctx.tier.pick(6_000, 200_000);
    ctx.random("error-rendering", n_err, 60, |ch| {
        let pad = ch.below(12);
        let unit = *ch.pick(&["κόσμε", "字字字", "é", "😀", "ab"]);
        let reps = 4 + ch.below(40);
        let long: String = format!("{}{}", "a".repeat(pad), unit.repeat(reps));
        let prelude = vec![
            "(define vec (vector 1 2 3))".to_string(),
            "(define nested (list 'slot vec (vector vec)))".to_string(),
            format!("(define ustr \"{}\")", long),
            format!("(define usym '|{}|)", long),
            "(define (two p q) p)".to_string(),
            "(define (rest2 p q . r) r)".to_string(),
            "(define lam0 (lambda () 0))".to_string(),
        ];
        let pool = [
            "vec", "nested", "ustr", "usym", "two", "rest2", "lam0", "car", "'()", "0", "-1", "1/2", "1.5", "#\\λ", "'sym", "(list ustr ustr)", "(vector ustr vec)",
            // numbers without an order or a finite value
            "(sqrt -1)", "(/ 1. 0)", "(- (/ 1. 0))", "(* 0 (exp 1000))", "-0.0", "1e39", "(- (/ 1. 0) (/ 1. 0))", "-2147483648", "2147483647",
        ];
        let mut forms = prelude;
        for _ in 0..1 + ch.below(4) {
            let f = match ch.below(4) {
                0 => (*ch.pick(&["two", "rest2", "lam0", "vec", "ustr", "nested"])).to_string(),
                _ => (*ch.pick(BUILTINS)).to_string(),
            };
            let k = ch.below(5);
            let args: Vec<&str> = (0..k).map(|_| *ch.pick(&pool)).collect();
            let call = format!("({} {})", f, args.join(" "));
            forms.push(match ch.below(5) {
                0 => format!("(apply {} (list {}))", f, args.join(" ")),
                1 => format!("((lambda () {}))", call),
                _ => call,
            });
        }
        let mut rep = judge_forms(forms, Budget::FUZZ);
        rep.label("error-rendering");
        rep
    });

    // (4) unicode / control characters
    let n_uni = ctx.tier.pick(2_000, 100_000);
    ctx.random("unicode", n_uni, 40, |ch| {
        let n = 1 + ch.below(24);
        let mut s = String::new();
        for _ in 0..n {
            let c = match ch.below(6) {
                0 => char::from_u32(ch.below(32) as u32).unwrap(),
                1 => char::from_u32(0x80 + ch.below(0x780) as u32).unwrap_or('x'),
                2 => char::from_u32(0x800 + ch.below(0xd000) as u32).unwrap_or('y'),
                3 => char::from_u32(0x10000 + ch.below(0xfffff) as u32).unwrap_or('z'),
                4 => *ch.pick(&ALPHABET20[..]),
                _ => *ch.pick(&['λ', 'é', '\u{0}', '\u{7f}', '\u{feff}', '\u{2028}', '\u{a0}', '字', '\u{200b}', '\t', '\r']),
            };
            s.push(c);
        }
        let mut rep = judge_text(&s, Budget::FUZZ);
        rep.key = format!("{:?}", s);
        rep.label("unicode");
        rep
    });

    // (4b) whole processes: programs whose values are awkward to print, run by the built binary; the process must end
    // with a status of its own (0 or the error status), never by a signal or a panic
    if !ctx.skip_sub("process") && ctx.replay.is_none() {
        let head = "(import (scheme base) (scheme write))\n";
        let programs: Vec<(&str, String)> = vec![
            ("a vector stored into itself, displayed", format!("{}(define v (vector 1 2))\n(vector-set! v 0 v)\n(display v)\n", head)),
            ("a cycle through two vectors, displayed", format!("{}(define a (vector 1 0))\n(define b (vector 2 a))\n(vector-set! a 1 b)\n(display a)\n(display b)\n", head)),
            ("a cycle through three vectors and a list, displayed", format!("{}(define a (vector 0))\n(define b (vector (list 1 a)))\n(define c (vector b))\n(vector-set! a 0 c)\n(display (list a b c))\n", head)),
            ("a cycle through two vectors in an error message", format!("{}(define a (vector 1 0))\n(define b (vector 2 a))\n(vector-set! a 1 b)\n(car a)\n", head)),
            ("a cycle through two vectors as a wrong argument count", format!("{}(define a (vector 1 0))\n(define b (vector 2 a))\n(vector-set! a 1 b)\n((lambda (x) x) a b)\n", head)),
            ("the same empty vector displayed twice", format!("{}(define e (vector))\n(display (vector 1 e (list e 2)))\n(display e)\n", head)),
            ("a string left open at the end of the file", format!("{}(display 1)\n(display \"never closed", head)),
            ("an |identifier left open at the end of the file", format!("{}(display 1)\n(display (quote |never closed", head)),
            ("a list left open at the end of the file", format!("{}(display 1)\n(display (list 1 2", head)),
            ("a fault on a line of a library that the program does not have", "(import (scheme base) (long lib))\n(display a)\n".to_string()),
        ];
        for (what, text) in programs {
            let dir = crate::checks::c17::scratch("c07p");
            let _ = std::fs::create_dir_all(&dir);
            let file = dir.join("p.scm");
            std::fs::write(&file, &text).unwrap();
            // a library next to the program, longer than the program, failing on its last line
            let _ = std::fs::create_dir_all(dir.join("long"));
            let _ = std::fs::write(
                dir.join("long/lib.sld"),
                "(define-library (long lib)\n  (import (scheme base))\n  (export a)\n  (begin\n    (define b 1)\n    (define c 2)\n    (define d 3)\n    (define a (car b))))\n",
            );
            let r = crate::checks::c17::run_binary(&[file.to_str().unwrap()], &dir, None);
            let _ = std::fs::remove_dir_all(&dir);
            let mut rep = Report::new(format!("process: {}\n{}", what, text));
            rep.nontrivial = true;
            rep.note = format!("exit {:?}; stdout {:?}; stderr {:?}", r.code, r.stdout.chars().take(120).collect::<String>(), r.stderr.chars().take(160).collect::<String>());
            match r.code {
                Some(0) | Some(255) if !r.stderr.contains("panicked at") => {}
                Some(101) => rep.fail("process-panicked", format!("exit status 101: {}", r.stderr.chars().take(200).collect::<String>())),
                None => rep.fail("process-abort:stack-overflow-in-display", format!("the process was ended by a signal: {}", r.stderr.chars().take(200).collect::<String>())),
                other => rep.fail("process-unexpected-status", format!("{:?}", other)),
            }
            ctx_record_text(ctx, "process", &rep);
        }
    }

    // (5) files
    if !ctx.skip_sub("files") && ctx.replay.is_none() {
        let lib_ok = b"(define-library (my lib) (export a) (begin (define a 1)))".to_vec();
        let prog_ok = b"(import (my lib))\n(define b a)\n".to_vec();
        let cases: Vec<(&str, Option<Vec<u8>>, Option<Vec<u8>>, bool)> = vec![
            ("valid program + valid library", Some(prog_ok.clone()), Some(lib_ok.clone()), false),
            ("missing program file", None, None, false),
            ("program path is a directory", None, None, true),
            ("empty program file", Some(vec![]), None, false),
            ("program with CRLF line ends", Some(b"(define a 1)\r\n(define b\r\n  2)\r\n".to_vec()), None, false),
            ("program without final newline", Some(b"(define a 1)".to_vec()), None, false),
            ("program is invalid UTF-8", Some(vec![b'(', 0xff, 0xfe, b')', b'\n']), None, false),
            ("program has invalid UTF-8 on second line", Some(b"(define a 1)\n\xc3\x28\n".to_vec()), None, false),
            ("library is invalid UTF-8", Some(prog_ok.clone()), Some(vec![0xff, 0xfe, 0x00]), false),
            ("library file is empty", Some(prog_ok.clone()), Some(vec![]), false),
            ("library file unbalanced", Some(prog_ok.clone()), Some(b"(define-library (my lib) (export a".to_vec()), false),
            ("library defines another name", Some(prog_ok.clone()), Some(b"(define-library (other) (export a) (begin (define a 1)))".to_vec()), false),
            ("library body faults", Some(prog_ok.clone()), Some(b"(define-library (my lib) (export a) (begin (define a (car '()))))".to_vec()), false),
            ("library exports unbound", Some(prog_ok.clone()), Some(b"(define-library (my lib) (export zz))".to_vec()), false),
            ("library with NUL bytes", Some(prog_ok.clone()), Some(b"(define-library (my lib)\0 (export a) (begin (define a 1)))".to_vec()), false),
            (
                "library with a private macro named like a bundled one",
                Some(b"(import (scheme base) (my lib))\n(define b (cond ((= a 1) 10) ((= a 2) 20) (else 30)))\n".to_vec()),
                Some(b"(define-library (my lib) (import (scheme base)) (export a) (begin (define-syntax cond (syntax-rules () ((cond t e) (if t e #f)))) (define-syntax unless (syntax-rules () ((unless c) c))) (define a (cond #t 1))))".to_vec()),
                false,
            ),
        ];
        for (d, p, l, dir) in cases {
            let rep = judge_file_case(d, p, l, dir);
            ctx_record_text(ctx, "files", &rep);
        }
    }
}

fn ctx_record_text(ctx: &Ctx, sub: &str, rep: &Report) {
    // single-case wrapper around the fixed-list runner so that stats and violations are handled uniformly
    let r = rep.clone();
    ctx.texts(sub, &[rep.key.clone()], move |_| r.clone());
}

fn corrupt(ch: &mut Chooser, toks: &mut Vec<String>) {
    if toks.is_empty() {
        toks.push(gen_token(ch));
        return;
    }
    let i = ch.below(toks.len());
    match ch.below(7) {
        0 => {
            toks.remove(i);
        }
        1 => {
            let t = toks[i].clone();
            toks.insert(i, t);
        }
        2 => {
            let j = ch.below(toks.len());
            toks.swap(i, j);
        }
        3 => toks[i] = gen_token(ch),
        4 => toks.insert(i, gen_token(ch)),
        5 => toks.insert(i, (*ch.pick(&["(", ")", "'", "#(", "."])).to_string()),
        _ => {
            // re-parenthesise: wrap a short run
            let j = (i + 1 + ch.below(3)).min(toks.len());
            toks.insert(j, ")".to_string());
            toks.insert(i, "(".to_string());
        }
    }
}

fn short_strings(ctx: &Ctx, sub: &str, alpha: &[char], maxlen: u32) {
    if ctx.skip_sub(sub) {
        return;
    }
    // replay of a single text from this sub-check
    if ctx.replay.is_some() {
        ctx.texts(sub, &[], |t| judge_text(t, Budget::FUZZ));
        return;
    }
    let a = alpha.len() as u64;
    let mut total = 0u64;
    for l in 0..=maxlen {
        total += a.pow(l);
    }
    let decode = |mut i: u64| -> String {
        // index -> (length, digits)
        let mut l = 0u32;
        loop {
            let n = a.pow(l);
            if i < n {
                break;
            }
            i -= n;
            l += 1;
        }
        let mut s = String::new();
        for _ in 0..l {
            s.push(alpha[(i % a) as usize]);
            i /= a;
        }
        s
    };
    use std::sync::atomic::{AtomicU64, Ordering};
    let nontrivial = AtomicU64::new(0);
    let samples = std::sync::Mutex::new(Vec::new());
    let chunk = 2000u64;
    let n_chunks = (total + chunk - 1) / chunk;
    let next = AtomicU64::new(0);
    std::thread::scope(|sc| {
        for _ in 0..crate::runner::SHARDS {
            let nontrivial = &nontrivial;
            let samples = &samples;
            let next = &next;
            let decode = &decode;
            std::thread::Builder::new()
                .stack_size(sut::STACK_BYTES)
                .spawn_scoped(sc, move || loop {
                    let c = next.fetch_add(1, Ordering::SeqCst);
                    if c >= n_chunks {
                        break;
                    }
                    let mut s = Session::stdlib().unwrap().with_budget(Budget::FUZZ);
                    for i in (c * chunk)..((c + 1) * chunk).min(total) {
                        let text = decode(i);
                        let o = s.eval(&text);
                        let mut rep = Report::new(format!("{:?}", text));
                        let mut progressed = false;
                        judge_outcome(&o, &mut rep, &mut progressed);
                        rep.note = o.show();
                        if o.is_panic() || i % 64 == 0 {
                            let b = s.budget.take();
                            sanity(&mut s, &mut rep, "the input");
                            s.budget = b;
                        }
                        if progressed {
                            let n = nontrivial.fetch_add(1, Ordering::Relaxed);
                            if n % 20_000 == 7 {
                                samples.lock().unwrap().push(serde_json::json!({"text": text, "observed": rep.note}));
                            }
                        }
                        if !rep.fails.is_empty() {
                            ctx.bulk_fail(sub, &text, &rep);
                        }
                    }
                })
                .unwrap();
        }
    });
    let samples = samples.into_inner().unwrap();
    ctx.bulk(sub, total, nontrivial.load(Ordering::SeqCst), samples, true);
}

/// inputs observed to violate the property on the pinned tree (kept so that each recorded
/// finding is re-examined on every run) plus regression inputs for repaired defects
pub const WITNESSES: &[&str] = &[
    "1/",
    "1/-2",
    "99999999999",
    "2147483648",
    "1/4294967296",
    "2147483648/3",
    "1e",
    "-.",
    "+.",
    "(a . b)",
    "(1 . 2)",
    "(lambda ((a) b) a)",
    "(define (f x) x) (define (h) (f)) (h)",
    "(define (f x) x) (define (g) (f 1 2)) (g)",
    "(+ 2147483647 1)",
    "(- -2147483648 1)",
    "(* 65536 65536)",
    "(abs -2147483648)",
    "(- -2147483648)",
    "(/ -2147483648 -1)",
    "(< 1/65536 1/65537)",
    "(+ 1/65536 1/65537)",
    "(eqv? 1/65536 1/65537)",
    "(floor-quotient -2147483648 -1)",
    "(floor -2147483648/-1)",
    "(vector-ref (vector 1 2) -1)",
    "(make-vector 1.5 0)",
    "(exact 1e10)",
    "(define-syntax m (syntax-rules () ((m a ...) (quote (a ... ...))))) (m 1 2)",
    "(define-syntax m (syntax-rules () ((m (a ...) ...) (quote (a ... ...))))) (m (1 2) (3))",
    "(define-syntax m (syntax-rules () ((m a ... b) (quote (b a ...))))) (m 1 2 3)",
    "(define-syntax m (syntax-rules () ((m ...) 1))) (m 1)",
    "(define-syntax m (syntax-rules () ((m (... a)) a))) (m (1))",
    "(define-syntax def-m (syntax-rules () ((def-m name) (define-syntax name (syntax-rules () ((name) 42)))))) (def-m foo) (foo)",
    "(define-syntax def-v (syntax-rules () ((def-v name e) (define name e)))) (def-v q 3) q",
    "(define-syntax m1 (syntax-rules () ((m1) (define-syntax m1 (syntax-rules () ((m1) 7)))))) (m1) (m1)",
    "(let loop ((i 0)) i)",
    "(cond)",
    "(case)",
    "(let)",
    "(define)",
    "(lambda)",
    "(if)",
    "(set!)",
    "(quote)",
    "(import)",
    "(define-library)",
    "(define-syntax)",
    "(apply)",
    "(apply +)",
    "(apply + 1)",
    "(apply + '(1 . 2))",
    "(map car 5)",
    "(list-tail '(1) 5)",
    "(append '(1 . 2) '(3))",
    "(vector-set! #(1 2) 0 1)",
    "'#(1 . 2)",
    "#(1 . 2)",
    "(1 . 2 3)",
    "( . 1)",
    "'( . 1)",
    "(define x 1) (set! x)",
    "(import (only (scheme base)))",
    "(import (rename (scheme base) (car)))",
    "(import (prefix (scheme base)))",
    "(import (scheme base) . x)",
    "(define-library (x) (export (rename a)))",
    "(define-library (x) (begin . 1))",
    "(display)",
    "(newline 1)",
    "(exit)",
    "#u8(1 2)",
    "`(a ,b ,@c)",
    ",",
    ",@",
];
