//! C14 — library loading terminates, and its outcome depends only on the library graph.
use crate::runner::{Ctx, Report};
use crate::sut::{self, guarded, Session};
use ruschm::interpreter::LibraryFactory;
use ruschm::parser::{LibraryName, LibraryNameElement};
use std::path::PathBuf;
use std::sync::atomic::{AtomicU64, Ordering};

#[derive(Clone, Copy, Debug, PartialEq, Eq)]
pub enum Status {
    Healthy,
    Missing,
    BodyFault,
    WrongName,
    Unbalanced,
    NotUtf8,
    /// the body uses the export of a library it does not import (an unbound symbol, whatever the importer has bound)
    UsesUnimported,
    /// healthy, but the file holds another library definition before the wanted one
    SecondInFile,
    /// bytes that are not UTF-8 on a later line of the file: after the complete definition, or inside it
    NotUtf8Late,
    /// exports a name it neither defines nor imports
    ExportsMissing,
    /// the path of the library file exists but is a directory: it cannot be read
    IsDirectory,
    /// balanced text whose body holds a form that is not a well-formed expression or definition
    MalformedForm,
}

pub const FILE_STATUSES: [Status; 12] = [
    Status::MalformedForm,
    Status::IsDirectory,
    Status::ExportsMissing,
    Status::Healthy,
    Status::Missing,
    Status::BodyFault,
    Status::WrongName,
    Status::Unbalanced,
    Status::NotUtf8,
    Status::UsesUnimported,
    Status::SecondInFile,
    Status::NotUtf8Late,
];
pub const SOURCE_STATUSES: [Status; 5] = [Status::Healthy, Status::Missing, Status::BodyFault, Status::UsesUnimported, Status::ExportsMissing];

#[derive(Clone, Debug)]
pub struct Graph {
    pub n: usize,
    /// edges[i] = libraries imported by library i, in order
    pub edges: Vec<Vec<usize>>,
    pub status: Vec<Status>,
    /// render every dependency in an import declaration of its own
    pub multi_decl: bool,
    /// how an edge is written: 0 (g nJ), 1 (prefix (g nJ) pJ:), 2 (only (g nJ) vJ), 3 (rename (g nJ) (vJ wJ))
    pub wrap: u8,
}

fn import_set(g: &Graph, j: usize) -> String {
    match g.wrap {
        1 => format!("(prefix (g n{}) p{}:)", j, j),
        2 => format!("(only (g n{}) v{})", j, j),
        3 => format!("(rename (g n{}) (v{} w{}))", j, j, j),
        _ => format!("(g n{})", j),
    }
}

/// the export of the lowest-numbered other library that library i does not import (v9 = bound nowhere)
fn unimported_name(g: &Graph, i: usize) -> String {
    match (0..g.n).find(|k| *k != i && !g.edges[i].contains(k)) {
        Some(k) => format!("v{}", k),
        None => "v9".to_string(),
    }
}

fn extra_export(g: &Graph, i: usize) -> String {
    if g.status[i] == Status::ExportsMissing {
        if i % 2 == 0 { format!(" nothing{}", i) } else { format!(" (rename nothing{} n{})", i, i) }
    } else {
        String::new()
    }
}

fn body_text(g: &Graph, i: usize) -> String {
    match g.status[i] {
        Status::BodyFault => format!("(define v{} (no-such-procedure {}))", i, i),
        Status::MalformedForm => format!("(define v{} {}) {}", i, 100 + i, if i % 2 == 0 { "(define)" } else { "(if)" }),
        // (odd i: the name of a macro private to another library, used as an operator: an unbound variable whatever was
        // read before)
        Status::UsesUnimported if i % 2 == 1 => format!("(define v{} (mac{} 7))", i, (i + 1) % g.n.max(2)),
        Status::UsesUnimported => format!("(define v{} {})", i, unimported_name(g, i)),
        // a syntax definition private to the library
        _ => format!("(define-syntax mac{} (syntax-rules () ((mac{} e) e))) (define v{} (mac{} {}))", i, i, i, i, 100 + i),
    }
}

fn lib_text(g: &Graph, i: usize, name_override: Option<&str>) -> String {
    if g.multi_decl {
        // one import declaration per dependency (a library may have several import declarations)
        // ... the last of them after a first part of the body
        let last = g.edges[i].len().saturating_sub(1);
        let decls: String = g.edges[i]
            .iter()
            .enumerate()
            .map(|(k, j)| if k == last { format!(" (begin (define early{} {})) (import {})", i, i, import_set(g, *j)) } else { format!(" (import {})", import_set(g, *j)) })
            .collect();
        let name = name_override.map(|s| s.to_string()).unwrap_or(format!("(g n{})", i));
        let body = body_text(g, i);
        return format!("(define-library {}{} (export v{}{}) (begin {}))\n", name, decls, i, extra_export(g, i), body);
    }
    let imports: String = g.edges[i].iter().map(|j| format!(" {}", import_set(g, *j))).collect();
    let name = name_override.map(|s| s.to_string()).unwrap_or(format!("(g n{})", i));
    let body = body_text(g, i);
    let imp = if imports.is_empty() { String::new() } else { format!(" (import{})", imports) };
    format!("(define-library {}{} (export v{}{}) (begin {}))\n", name, imp, i, extra_export(g, i), body)
}

fn file_bytes(g: &Graph, i: usize) -> Option<Vec<u8>> {
    match g.status[i] {
        Status::Missing | Status::IsDirectory => None,
        Status::Healthy | Status::BodyFault | Status::UsesUnimported | Status::ExportsMissing | Status::MalformedForm => Some(lib_text(g, i, None).into_bytes()),
        // the decoy before the wanted library: another name, or (odd i) the one-identifier name g/n<i>, whose file path is the same
        Status::SecondInFile => Some(
            format!("(define-library ({}) (export d) (begin (define d 0)))\n{}", if i % 2 == 0 { format!("g decoy{}", i) } else { format!("g/n{}", i) }, lib_text(g, i, None)).into_bytes(),
        ),
        Status::WrongName => {
            // the name in the file differs from the requested one in its last element, in its first element only, by an
            // extra element, or by a missing first element
            let wrong = match i % 4 {
                0 => "(g other)".to_string(),
                1 => format!("(h n{})", i),
                2 => format!("(g n{} extra)", i),
                _ => format!("(n{})", i),
            };
            Some(lib_text(g, i, Some(&wrong)).into_bytes())
        }
        Status::Unbalanced => {
            let t = lib_text(g, i, None);
            Some(t.trim_end().trim_end_matches(')').as_bytes().to_vec())
        }
        Status::NotUtf8Late => {
            // the first line is clean text; the bad bytes come on a later line (inside the form for even i, after it for odd i)
            let t = lib_text(g, i, None);
            let mut b = Vec::new();
            if i % 2 == 0 {
                let cut = t.find("(begin").unwrap_or(t.len() / 2);
                b.extend_from_slice(t[..cut].as_bytes());
                b.extend_from_slice(b"\n ; caf\xe9 \xff\n");
                b.extend_from_slice(t[cut..].as_bytes());
            } else {
                b.extend_from_slice(t.as_bytes());
                b.extend_from_slice(b"; written in latin-1: caf\xe9\n");
            }
            Some(b)
        }
        Status::NotUtf8 => {
            let mut b = lib_text(g, i, None).into_bytes();
            b.insert(20, 0xff);
            b.insert(21, 0xfe);
            Some(b)
        }
    }
}

fn traversable(s: Status) -> bool {
    matches!(s, Status::Healthy | Status::BodyFault | Status::UsesUnimported | Status::SecondInFile | Status::ExportsMissing)
}

/// error classes that the graph makes acceptable for an import of `root` (empty = must succeed)
pub fn acceptable(g: &Graph, root: usize) -> Vec<&'static str> {
    // reachable set (not expanding past libraries whose file cannot be read as that library)
    let mut reach = vec![false; g.n];
    let mut stack = vec![root];
    while let Some(i) = stack.pop() {
        if reach[i] {
            continue;
        }
        reach[i] = true;
        if traversable(g.status[i]) {
            for j in &g.edges[i] {
                stack.push(*j);
            }
        }
    }
    let mut out = vec![];
    for i in 0..g.n {
        if reach[i] {
            let c = match g.status[i] {
                Status::Healthy | Status::SecondInFile => continue,
                Status::Missing | Status::WrongName => "Logic::LibraryNotFound",
                Status::BodyFault | Status::UsesUnimported | Status::ExportsMissing => "Logic::UnboundedSymbol",
                Status::Unbalanced | Status::MalformedForm => "Syntax",
                Status::NotUtf8 | Status::NotUtf8Late | Status::IsDirectory => "IO",
            };
            if !out.contains(&c) {
                out.push(c);
            }
        }
    }
    // a cycle within the traversable reachable subgraph
    fn cyclic(g: &Graph, i: usize, on_path: &mut Vec<usize>, done: &mut Vec<bool>) -> bool {
        if on_path.contains(&i) {
            return true;
        }
        if done[i] || !traversable(g.status[i]) {
            return false;
        }
        on_path.push(i);
        for j in &g.edges[i] {
            if cyclic(g, *j, on_path, done) {
                return true;
            }
        }
        on_path.pop();
        done[i] = true;
        false
    }
    if cyclic(g, root, &mut vec![], &mut vec![false; g.n]) {
        out.push("Logic::LibraryImportCyclic");
    }
    out
}

fn class_of(tag: &str) -> String {
    if tag.starts_with("Syntax::") {
        "Syntax".to_string()
    } else {
        tag.to_string()
    }
}

static DIRS: AtomicU64 = AtomicU64::new(0);

fn make_dir(g: &Graph) -> PathBuf {
    let d = std::env::temp_dir().join(format!("rv-c14-{}-{}", std::process::id(), DIRS.fetch_add(1, Ordering::SeqCst)));
    let _ = std::fs::remove_dir_all(&d);
    std::fs::create_dir_all(d.join("g")).unwrap();
    for i in 0..g.n {
        write_lib(&d, g, i);
    }
    d
}

/// put library i of the graph where the interpreter looks for it (nothing for a missing one, a directory for IsDirectory)
fn write_lib(d: &std::path::Path, g: &Graph, i: usize) {
    let path = d.join("g").join(format!("n{}.sld", i));
    if g.status[i] == Status::IsDirectory {
        std::fs::create_dir_all(&path).unwrap();
    } else if let Some(b) = file_bytes(g, i) {
        std::fs::write(path, b).unwrap();
    }
}

fn lib_name(i: usize) -> LibraryName {
    LibraryName(vec![LibraryNameElement::Identifier("g".into()), LibraryNameElement::Identifier(format!("n{}", i))])
}

/// run a history of import attempts on one interpreter; returns the class of each outcome ("ok" or error class)
/// and whether the root's export is bound after a success
fn run_history(g: &Graph, dir: Option<&PathBuf>, history: &[usize]) -> Result<Vec<(String, bool)>, String> {
    let g = g.clone();
    let dir = dir.cloned();
    let history = history.to_vec();
    let (tx, rx) = std::sync::mpsc::channel();
    std::thread::Builder::new()
        .stack_size(64 << 20)
        .spawn(move || {
            let mut s = Session::bare().unwrap();
            match &dir {
                Some(d) => s.it.program_directory = Some(d.clone()),
                None => {
                    // an existing directory without library files, so that unregistered libraries are "missing"
                    s.it.program_directory = Some(std::env::temp_dir().join("rv-c14-no-such-dir"));
                    for i in 0..g.n {
                        if g.status[i] != Status::Missing {
                            if let Ok(f) = LibraryFactory::from_char_stream(&lib_name(i), lib_text(&g, i, None).chars()) {
                                s.it.register_library_factory(f);
                            }
                        }
                    }
                }
            }
            // half of the graphs: the program has already imported a library that binds the very names the "exports
            // missing" libraries claim to export (a library sees its own imports and definitions only)
            if g.wrap % 2 == 1 {
                let donor = "(define-library (g donor) (export nothing0 nothing1 nothing2 nothing3) (begin (define nothing0 0) (define nothing1 1) (define nothing2 2) (define nothing3 3)))";
                let name = LibraryName(vec![LibraryNameElement::Identifier("g".into()), LibraryNameElement::Identifier("donor".into())]);
                if let Ok(f) = LibraryFactory::from_char_stream(&name, donor.chars()) {
                    s.it.register_library_factory(f);
                    let _ = guarded(|| s.it.eval("(import (g donor))".chars()));
                }
            }
            let mut out = vec![];
            for r in &history {
                // the program reaches the root through the same kind of import set (its export then arrives renamed)
                let text = format!("(import {})", import_set(&g, *r));
                // a generous budget for graphs of at most 4 libraries: unbounded import recursion trips it
                ruschm::verif_hooks::arm(100_000, 64, 10_000);
                let it = &mut s.it;
                let o = guarded(|| it.eval(text.chars()));
                let tripped = ruschm::verif_hooks::tripped();
                ruschm::verif_hooks::disarm();
                let cls = match o {
                    Err((site, msg)) => format!("PANIC {}", sut::panic_sig(&site, &msg)),
                    _ if tripped != 0 => "RUNAWAY".to_string(),
                    Ok(Ok(_)) => "ok".to_string(),
                    Ok(Err(e)) => class_of(&sut::err_info(&e).tag),
                };
                let bound_name = match g.wrap {
                    1 => format!("p{}:v{}", r, r),
                    3 => format!("w{}", r),
                    _ => format!("v{}", r),
                };
                let bound = s.it.env.get(&bound_name).is_some();
                out.push((cls, bound));
            }
            let _ = tx.send(out);
        })
        .unwrap();
    // non-termination inside the interpreter is turned into the outcome RUNAWAY by the step/depth budget armed above
    // (deterministic); this wall-clock watchdog only guards the harness itself: hitting it is inconclusive, never a violation
    match rx.recv_timeout(std::time::Duration::from_secs(300)) {
        Ok(v) => Ok(v),
        Err(_) => {
            eprintln!("[rv] C14: an import attempt did not finish within 300 s of wall clock: inconclusive");
            std::process::exit(2);
        }
    }
}

pub fn histories(n: usize, max_len: usize) -> Vec<Vec<usize>> {
    let mut out = vec![];
    let mut cur: Vec<Vec<usize>> = vec![vec![]];
    for _ in 0..max_len {
        let mut next = vec![];
        for h in &cur {
            for r in 0..n {
                let mut h2 = h.clone();
                h2.push(r);
                next.push(h2);
            }
        }
        out.extend(next.iter().cloned());
        cur = next;
    }
    out
}

fn describe(g: &Graph, files: bool) -> String {
    let parts: Vec<String> = (0..g.n).map(|i| format!("n{}[{:?}]->{:?}", i, g.status[i], g.edges[i])).collect();
    let wrap = ["", " (edges written as prefix sets)", " (edges written as only sets)", " (edges written as rename sets)"][g.wrap as usize % 4];
    format!("{}{}{} {}", if files { "files" } else { "registered" }, if g.multi_decl { " (one import declaration per dependency)" } else { "" }, wrap, parts.join(" "))
}

pub fn judge_graph(g: &Graph, files: bool, hist: &[Vec<usize>]) -> Vec<Report> {
    let dir = if files { Some(make_dir(g)) } else { None };
    let mut reps = vec![];
    // outcome of each root on a fresh interpreter
    let mut fresh: Vec<Option<String>> = vec![None; g.n];
    for r in 0..g.n {
        if let Ok(v) = run_history(g, dir.as_ref(), &[r]) {
            fresh[r] = Some(v[0].0.clone());
        }
    }
    let shared_dep = (0..g.n).any(|j| (0..g.n).filter(|i| g.edges[*i].contains(&j)).count() >= 2);
    for h in hist {
        let mut rep = Report::new(format!("{} ; attempts {:?}", describe(g, files), h));
        match run_history(g, dir.as_ref(), h) {
            Err(sig) => rep.fail(sig, "an import attempt did not terminate"),
            Ok(obs) => {
                rep.note = format!("{:?}", obs);
                let mut failed_before = false;
                for (k, r) in h.iter().enumerate() {
                    let (cls, bound) = &obs[k];
                    let acc = acceptable(g, *r);
                    if cls == "RUNAWAY" {
                        rep.fail("import-does-not-terminate", format!("attempt {} (import n{}): the import recursion exceeded 64 levels on a graph of {} libraries", k, r, g.n));
                        break;
                    }
                    if cls.starts_with("PANIC") {
                        rep.fail(cls[6..].to_string(), format!("attempt {} (import n{}) panicked", k, r));
                        break;
                    }
                    let ok = if cls == "ok" { acc.is_empty() } else { acc.contains(&cls.as_str()) };
                    if !ok {
                        let sig = if failed_before && cls == "Logic::LibraryImportCyclic" {
                            "import-failure-poisons-later-imports".to_string()
                        } else if cls == "ok" {
                            format!("import-succeeds-despite:{}", acc.join("+"))
                        } else if acc.is_empty() {
                            format!("import-fails-on-healthy-graph:{}", cls)
                        } else {
                            format!("import-wrong-error:{}", cls)
                        };
                        rep.fail(sig, format!("attempt {} (import n{}): got {}, the graph admits {:?}", k, r, cls, if acc.is_empty() { vec!["ok"] } else { acc.clone() }));
                        break;
                    }
                    if let Some(f) = &fresh[*r] {
                        if f != cls {
                            let sig = if failed_before { "import-outcome-depends-on-earlier-failure" } else { "import-outcome-depends-on-history" };
                            rep.fail(sig.to_string(), format!("attempt {} (import n{}): {} here, {} on a fresh interpreter", k, r, cls, f));
                            break;
                        }
                    }
                    if cls == "ok" && !bound {
                        rep.fail("import-ok-but-export-unbound", format!("attempt {}: v{} is not bound after the import succeeded", k, r));
                        break;
                    }
                    if cls != "ok" {
                        failed_before = true;
                    }
                }
                rep.nontrivial = (g.n >= 2 && (shared_dep || (0..g.n).any(|i| g.edges[i].contains(&i) || g.edges[i].iter().any(|j| g.edges[*j].contains(&i)))))
                    || (h.len() >= 2 && obs[0].0 != "ok");
            }
        }
        reps.push(rep);
    }
    if let Some(d) = dir {
        let _ = std::fs::remove_dir_all(d);
    }
    reps
}

/// decode (edge mask, status digits) into a graph
pub fn graph_from_index(n: usize, statuses: &[Status], idx: u64) -> Graph {
    let n_edges = (n * n) as u32;
    let mask = idx % (1u64 << n_edges);
    let mut rest = idx / (1u64 << n_edges);
    let mut edges = vec![vec![]; n];
    for i in 0..n {
        for j in 0..n {
            if mask & (1 << (i * n + j)) != 0 {
                edges[i].push(j);
            }
        }
    }
    let mut status = vec![];
    for _ in 0..n {
        status.push(statuses[(rest % statuses.len() as u64) as usize]);
        rest /= statuses.len() as u64;
    }
    // the way edges are written is not a dimension of its own: it is spread over the graphs by a hash of the index
    let wrap = ((idx.wrapping_mul(0x9E37_79B9_7F4A_7C15) >> 33) % 4) as u8;
    Graph { n, edges, status, multi_decl: rest % 2 == 1, wrap }
}

pub fn graph_count(n: usize, statuses: usize) -> u64 {
    (1u64 << (n * n)) * (statuses as u64).pow(n as u32) * 2
}

/// location clause: libraries are found relative to the program's directory, not the working directory
fn location_check(ctx: &Ctx) {
    if ctx.skip_sub("location") || ctx.replay.is_some() {
        return;
    }
    let base = std::env::temp_dir().join(format!("rv-c14-loc-{}", std::process::id()));
    let _ = std::fs::remove_dir_all(&base);
    let prog_dir = base.join("prog");
    let decoy_dir = base.join("cwd");
    std::fs::create_dir_all(prog_dir.join("g")).unwrap();
    std::fs::create_dir_all(decoy_dir.join("g")).unwrap();
    std::fs::write(prog_dir.join("g/n0.sld"), "(define-library (g n0) (export v0) (begin (define v0 100)))\n").unwrap();
    std::fs::write(decoy_dir.join("g/n0.sld"), "(define-library (g n0) (export v0) (begin (define v0 -1)))\n").unwrap();
    std::fs::write(decoy_dir.join("g/n1.sld"), "(define-library (g n1) (export v1) (begin (define v1 -1)))\n").unwrap();
    std::fs::write(prog_dir.join("main.scm"), "(import (g n0))\nv0\n").unwrap();
    std::fs::write(prog_dir.join("only-in-cwd.scm"), "(import (g n1))\nv1\n").unwrap();
    let old = std::env::current_dir().ok();
    let _ = std::env::set_current_dir(&decoy_dir);
    let mut reps = vec![];
    for (prog, expect_ok) in [("main.scm", true), ("only-in-cwd.scm", false)] {
        for rel in [false, true] {
            let path = if rel { PathBuf::from("../prog").join(prog) } else { prog_dir.join(prog) };
            let mut rep = Report::new(format!("location: cwd={} eval_file({})", decoy_dir.display(), path.display()));
            rep.nontrivial = true;
            let p2 = path.clone();
            let o = sut::in_thread(move || {
                let mut s = Session::bare().unwrap();
                s.eval_file(&p2)
            });
            rep.note = o.show();
            match (&o, expect_ok) {
                (crate::sut::Outcome::Value(v), true) if v.equiv(&crate::sut::SVal::int(100)) => {}
                (crate::sut::Outcome::Error(e), false) if e.tag == "Logic::LibraryNotFound" => {}
                _ => rep.fail("library-located-relative-to-working-directory", format!("expected {}, got {}", if expect_ok { "100 from the program's own directory" } else { "library not found" }, o.show())),
            }
            reps.push(rep);
        }
    }
    // two program files in different directories run on one interpreter: each finds the libraries next to itself
    let second_dir = base.join("second");
    std::fs::create_dir_all(second_dir.join("g")).unwrap();
    std::fs::write(prog_dir.join("g/n3.sld"), "(define-library (g n3) (export v3) (begin (define v3 103)))\n").unwrap();
    std::fs::write(second_dir.join("g/n2.sld"), "(define-library (g n2) (export v2) (begin (define v2 102)))\n").unwrap();
    std::fs::write(prog_dir.join("imports-only.scm"), "(import (g n0))\n").unwrap();
    std::fs::write(prog_dir.join("failing-import.scm"), "(import (g nowhere))\n").unwrap();
    std::fs::write(second_dir.join("main2.scm"), "(import (g n2))\nv2\n").unwrap();
    std::fs::write(second_dir.join("only-in-first.scm"), "(import (g n3))\nv3\n").unwrap();
    for first in ["imports-only.scm", "failing-import.scm"] {
        for (prog, expect) in [("main2.scm", Some(102)), ("only-in-first.scm", None)] {
            let (p1, p2) = (prog_dir.join(first), second_dir.join(prog));
            let mut rep = Report::new(format!("location: one interpreter, eval_file({}) then eval_file({})", p1.display(), p2.display()));
            rep.nontrivial = true;
            let o = sut::in_thread(move || {
                let mut s = Session::bare().unwrap();
                let _ = s.eval_file(&p1);
                s.eval_file(&p2)
            });
            rep.note = o.show();
            match (&o, expect) {
                (crate::sut::Outcome::Value(v), Some(x)) if v.equiv(&crate::sut::SVal::int(x)) => {}
                (crate::sut::Outcome::Error(e), None) if e.tag == "Logic::LibraryNotFound" => {}
                _ => rep.fail(
                    "library-located-relative-to-an-earlier-program",
                    format!("expected {}, got {}", if expect.is_some() { "102 from the second program's own directory" } else { "library not found" }, o.show()),
                ),
            }
            reps.push(rep);
        }
    }
    if let Some(o) = old {
        let _ = std::env::set_current_dir(o);
    }
    let _ = std::fs::remove_dir_all(&base);
    for r in reps {
        let rr = r.clone();
        ctx.texts("location", &[r.key.clone()], move |_| rr.clone());
    }
}

/// a library definition is replaced (through a library loader or a single factory) after it has been imported: the
/// next import sees the new graph
fn redefinition_check(ctx: &Ctx) {
    if ctx.skip_sub("redefinition") || ctx.replay.is_some() {
        return;
    }
    use ruschm::interpreter::LibraryLoader;
    let mut reps = vec![];
    for via_loader in [true, false] {
        for second in [Status::BodyFault, Status::UsesUnimported, Status::Healthy, Status::Missing] {
            for imported_before in [true, false] {
                // graph: n0 -> n1 ; first both healthy, then n1 (or n0) is given the second status
                // (only the library that is imported again is redefined: whether a cached dependent notices a redefined
                // dependency is not something the property speaks about)
                for victim in [0usize] {
                    if second == Status::Missing {
                        continue;
                    }
                    let g1 = Graph { n: 2, edges: vec![vec![1], vec![]], status: vec![Status::Healthy, Status::Healthy], multi_decl: false, wrap: 0 };
                    let mut g2 = g1.clone();
                    g2.status[victim] = second;
                    if second == Status::Missing {
                        // "missing" cannot be registered: the dependency is renamed away instead (n0 now needs n2)
                        g2.status[victim] = Status::Healthy;
                        g2.edges[0] = vec![1];
                    }
                    let mut rep = Report::new(format!(
                        "redefinition ({}): n0->n1 healthy{}, then n{} redefined as {:?}, then (import (g n0))",
                        if via_loader { "append_lib_loader" } else { "register_library_factory" },
                        if imported_before { ", imported" } else { "" },
                        victim,
                        second
                    ));
                    rep.nontrivial = imported_before;
                    let (g1c, g2c) = (g1.clone(), g2.clone());
                    let outcome = sut::in_thread(move || {
                        let mut s = Session::bare().unwrap();
                        s.it.program_directory = Some(std::env::temp_dir().join("rv-c14-no-such-dir"));
                        let factories = |g: &Graph, only: Option<usize>| -> Vec<LibraryFactory<'static, f32>> {
                            (0..g.n).filter(|i| only.map(|o| o == *i).unwrap_or(true)).filter_map(|i| LibraryFactory::from_char_stream(&lib_name(i), lib_text(g, i, None).chars()).ok()).collect()
                        };
                        if via_loader {
                            let mut l = LibraryLoader::default();
                            for f in factories(&g1c, None) {
                                l.register_library_factory(f);
                            }
                            s.it.append_lib_loader(l);
                        } else {
                            for f in factories(&g1c, None) {
                                s.it.register_library_factory(f);
                            }
                        }
                        let first = if imported_before { Some(s.eval("(import (g n0))")) } else { None };
                        if via_loader {
                            let mut l = LibraryLoader::default();
                            for f in factories(&g2c, Some(victim)) {
                                l.register_library_factory(f);
                            }
                            s.it.append_lib_loader(l);
                        } else {
                            for f in factories(&g2c, Some(victim)) {
                                s.it.register_library_factory(f);
                            }
                        }
                        (first, s.eval("(import (g n0))"))
                    });
                    rep.note = format!("{:?} / {}", outcome.0.as_ref().map(|o| o.show()), outcome.1.show());
                    if let Some(f) = &outcome.0 {
                        if !matches!(f, crate::sut::Outcome::NoValue) {
                            rep.fail("import-fails-on-healthy-graph:first", f.show());
                        }
                    }
                    let acc = acceptable(&g2, 0);
                    let cls = match &outcome.1 {
                        crate::sut::Outcome::NoValue | crate::sut::Outcome::Value(_) => "ok".to_string(),
                        crate::sut::Outcome::Error(e) => class_of(&e.tag),
                        other => other.show(),
                    };
                    let ok = if cls == "ok" { acc.is_empty() } else { acc.contains(&cls.as_str()) };
                    if !ok {
                        rep.fail(
                            if cls == "ok" { "import-keeps-the-instance-of-a-redefined-library".to_string() } else { format!("import-wrong-error:{}", cls) },
                            format!("after the redefinition (import (g n0)) gave {}, the new graph admits {:?}", cls, if acc.is_empty() { vec!["ok"] } else { acc.clone() }),
                        );
                    }
                    reps.push(rep);
                }
            }
        }
    }
    for r in reps {
        let rr = r.clone();
        ctx.texts("redefinition", &[r.key.clone()], move |_| rr.clone());
    }
}

/// the library file appears between two attempts on one interpreter (healthy or faulty in any way): the second attempt
/// must give what the same import gives on a fresh interpreter
fn changed_file_check(ctx: &Ctx) {
    if ctx.skip_sub("file-appears-between-attempts") || ctx.replay.is_some() {
        return;
    }
    let mut reps = vec![];
    let one = |st: Status| Graph { n: 1, edges: vec![vec![]], status: vec![st], multi_decl: false, wrap: 0 };
    for first in FILE_STATUSES {
        for second in FILE_STATUSES {
            // only a library that was *not found* at the first attempt: a definition that was read once may be kept in
            // the factory cache (whether a changed file is read again is not something the property speaks about), but a
            // library that was never found has no definition to keep
            if first == second || first != Status::Missing {
                continue;
            }
            let (g1, g2) = (one(first), one(second));
            let mut rep = Report::new(format!("file appears between attempts: g/n0.sld {:?}, (import (g n0)), file becomes {:?}, (import (g n0))", first, second));
            rep.nontrivial = true;
            let (g1c, g2c) = (g1.clone(), g2.clone());
            let classes: Vec<String> = sut::in_thread(move || {
                let d = make_dir(&g1c);
                let attempt = |s: &mut Session| -> String {
                    ruschm::verif_hooks::arm(100_000, 64, 10_000);
                    let it = &mut s.it;
                    let o = guarded(|| it.eval("(import (g n0))".chars()));
                    ruschm::verif_hooks::disarm();
                    match o {
                        Err((site, msg)) => format!("PANIC {}", sut::panic_sig(&site, &msg)),
                        Ok(Ok(_)) => "ok".to_string(),
                        Ok(Err(e)) => class_of(&sut::err_info(&e).tag),
                    }
                };
                let mut s = Session::bare().unwrap();
                s.it.program_directory = Some(d.clone());
                let c1 = attempt(&mut s);
                let file = d.join("g").join("n0.sld");
                let _ = std::fs::remove_file(&file);
                write_lib(&d, &g2c, 0);
                let c2 = attempt(&mut s);
                let mut fresh = Session::bare().unwrap();
                fresh.it.program_directory = Some(d.clone());
                let cf = attempt(&mut fresh);
                let _ = std::fs::remove_dir_all(&d);
                vec![c1, c2, cf]
            });
            rep.note = format!("first attempt {}, second attempt {}, fresh interpreter {}", classes[0], classes[1], classes[2]);
            let acc1 = acceptable(&g1, 0);
            if classes[0] == "ok" || !acc1.contains(&classes[0].as_str()) {
                rep.fail(format!("import-wrong-error:{}", classes[0]), format!("first attempt gave {}, the graph admits {:?}", classes[0], acc1));
            } else if classes[1] != classes[2] {
                rep.fail(
                    "import-outcome-depends-on-an-earlier-attempt:file-appeared",
                    format!("after the file changed the import gave {} on the interpreter that had failed before and {} on a fresh one", classes[1], classes[2]),
                );
            }
            reps.push(rep);
        }
    }
    for r in reps {
        let rr = r.clone();
        ctx.texts("file-appears-between-attempts", &[r.key.clone()], move |_| rr.clone());
    }
}

pub fn run(ctx: &Ctx) {
    ctx.set_rule(
        "every directed graph (self-loops allowed) on 1-2 libraries (thorough: 3, strided) x every assignment of node \
         status (files: healthy / missing / body faults at load / file defines another name / unbalanced / not UTF-8 / \
         body uses the export of a library it does not import / exports a name it does not have / the file's path is a directory / a malformed form in a balanced body / a healthy definition that is the second one in its file / non-UTF-8 bytes on a later line; registered sources: healthy / missing / body fault / uses \
         unimported) x every history of 1-3 import attempts on one interpreter. \
         Edges (and the program's own import) are written as plain, prefix, only or rename import sets, in one import declaration or in one declaration per edge, the last of them after a first (begin ...) of the library body. \
         Oracle computed from the graph alone: success iff everything reachable is healthy and no cycle is reachable, a \
         cyclic-import error only if a cycle is reachable, a fault's own error class only if that faulty library is \
         reachable; every attempt equals the same import on a fresh interpreter; every attempt terminates (step and depth budget of the import hook: 100 000 evaluation steps, 64 nested imports); \
         a library redefined after it was imported (through append_lib_loader or register_library_factory) is judged by \
         the new graph; libraries are located relative to the program directory (eval_file from another working directory with decoys; two program files in different directories run on \
         one interpreter); a library file that appears (healthy or with any of the faults) after an attempt that did not find it is judged like the same import on a fresh interpreter. \
         Non-trivial = >= 2 libraries with a shared dependency or a cycle, or a history whose first attempt fails.",
    );
    location_check(ctx);
    redefinition_check(ctx);
    changed_file_check(ctx);
    for (files, statuses, label) in [(true, &FILE_STATUSES[..], "files"), (false, &SOURCE_STATUSES[..], "registered")] {
        for n in 1..=ctx.tier.pick(2, 3) {
            let total = graph_count(n, statuses.len());
            let hist = histories(n, 3);
            let sub = format!("{}-{}-libs", label, n);
            let target = ctx.tier.pick(600u64, 3_000u64);
            let stride = if n <= 2 { 1 } else { (total / target).max(1) };
            if ctx.skip_sub(&sub) {
                continue;
            }
            // one index = one graph; all histories of that graph are judged together
            ctx.indexed(&sub, total, stride, |i| {
                let g = graph_from_index(n, statuses, i);
                let reps = judge_graph(&g, files, &hist);
                // fold the histories of this graph into one report (first failure wins), counting each history
                let mut agg = Report::new(describe(&g, files));
                agg.nontrivial = reps.iter().any(|r| r.nontrivial);
                agg.labels.push(format!("histories:{}", reps.len()));
                for r in reps {
                    if !r.fails.is_empty() && agg.fails.is_empty() {
                        agg.key = r.key.clone();
                        agg.note = r.note.clone();
                        agg.fails = r.fails.clone();
                    }
                }
                Some(agg)
            });
        }
    }
}
