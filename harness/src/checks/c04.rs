//! C04 — syntax-rules expansion selects the first matching rule and fills its template.
use crate::ast::{render_datum, Datum};
use crate::refmacro::*;
use crate::runner::{Chooser, Ctx, Report};
use crate::sut::{self, Outcome, SVal, Session};

pub fn datum_sval(d: &Datum) -> SVal {
    match d {
        Datum::Int(i) => SVal::int(*i),
        Datum::Ratio(a, b) => SVal::Num(crate::sut::SNum::Rat(*a, *b)),
        Datum::Real(x) => SVal::Num(crate::sut::SNum::Real(x.parse::<f32>().unwrap_or(f32::NAN).to_bits())),
        Datum::Bool(b) => SVal::Bool(*b),
        Datum::Sym(s) => SVal::Sym(s.clone()),
        Datum::Str(s) => SVal::Str(s.clone()),
        Datum::Char(c) => SVal::Char(*c),
        Datum::List(items, tail) => {
            let iv: Vec<SVal> = items.iter().map(datum_sval).collect();
            match tail {
                None => SVal::list(iv),
                Some(t) => SVal::list_tail(iv, datum_sval(t)),
            }
        }
        Datum::Vector(items) => SVal::Vector { id: 0, mutable: false, items: items.iter().map(datum_sval).collect() },
    }
}

/// evaluate one rule set and its uses on a fresh interpreter in a fresh thread (fresh macro table)
pub fn run_uses(rs_text: String, uses: Vec<String>) -> (Outcome, Vec<Outcome>) {
    sut::in_thread(move || {
        let mut s = Session::stdlib().unwrap().with_budget(sut::Budget::FUZZ);
        // history: a definition with a custom ellipsis came first (whether this expander accepts it or not, it must
        // not change how the rule set under test is read)
        let _ = s.eval("(define-syntax ce-before (syntax-rules ::: () ((ce-before x :::) (list x :::))))");
        let _ = s.eval("(define-syntax ce-before2 (syntax-rules ::: () ((ce-before2 (x :::)) (quote (x :::)))))");
        let d = s.eval(&rs_text);
        let outs = uses.iter().map(|u| s.eval(u)).collect();
        (d, outs)
    })
}

fn pat_depth(p: &Pat) -> u32 {
    match p {
        Pat::List(items, e) | Pat::Vector(items, e) => 1 + items.iter().map(pat_depth).chain(e.iter().map(|x| pat_depth(x))).max().unwrap_or(0),
        _ => 0,
    }
}

fn pat_has_datum(p: &Pat) -> bool {
    match p {
        Pat::Datum(_) => true,
        Pat::List(items, e) | Pat::Vector(items, e) => items.iter().any(pat_has_datum) || e.as_ref().map(|x| pat_has_datum(x)).unwrap_or(false),
        _ => false,
    }
}

/// the recorded behaviour "a literal datum in a pattern matches any datum": same matcher, data patterns relaxed
fn relax(p: &Pat) -> Pat {
    match p {
        Pat::Datum(_) => Pat::Var("__any_datum__".into()),
        Pat::List(items, e) => Pat::List(items.iter().map(relax).collect(), e.as_ref().map(|x| Box::new(relax(x)))),
        Pat::Vector(items, e) => Pat::Vector(items.iter().map(relax).collect(), e.as_ref().map(|x| Box::new(relax(x)))),
        o => o.clone(),
    }
}

fn is_atom_non_symbol(d: &Datum) -> bool {
    matches!(d, Datum::Int(_) | Datum::Ratio(..) | Datum::Bool(_) | Datum::Str(_) | Datum::Char(_))
}

fn relaxed_expand(rs: &RuleSet, args: &Datum) -> Expansion {
    // relaxed data patterns only match atoms that are not symbols
    fn ok(p: &Pat, f: &Datum) -> bool {
        match (p, f) {
            (Pat::Datum(_), d) => is_atom_non_symbol(d),
            (Pat::List(items, e), Datum::List(forms, None)) | (Pat::Vector(items, e), Datum::Vector(forms)) => {
                items.iter().zip(forms.iter()).all(|(p, f)| ok(p, f)) && e.as_ref().map(|pe| forms.iter().skip(items.len()).all(|f| ok(pe, f))).unwrap_or(true)
            }
            _ => true,
        }
    }
    for (i, r) in rs.rules.iter().enumerate() {
        let mut b = Bindings::new();
        if ok(&r.pattern, args) && matches(&relax(&r.pattern), args, &mut b) {
            return match inst(&r.template, &b) {
                Some(d) => Expansion::Expanded(i, d),
                None => Expansion::OutOfClass,
            };
        }
    }
    Expansion::NoMatch
}

fn agrees(exp: &Expansion, o: &Outcome) -> Result<(), String> {
    match (exp, o) {
        (Expansion::Expanded(_, d), Outcome::Value(v)) if v.equiv(&datum_sval(d)) => Ok(()),
        (Expansion::NoMatch, Outcome::Error(e)) if e.tag == "Syntax::MacroMissMatch" => Ok(()),
        (Expansion::Expanded(i, d), other) => Err(format!("expected rule {} giving {}, got {}", i, render_datum(d), other.show())),
        (Expansion::NoMatch, other) => Err(format!("expected a no-match syntax error, got {}", other.show())),
        (Expansion::OutOfClass, _) => Ok(()),
    }
}

pub struct UseJudgement {
    pub nontrivial: bool,
    pub fail: Option<(String, String)>,
    pub skipped: bool,
}

pub fn judge_use(rs: &RuleSet, args: &Datum, o: &Outcome) -> UseJudgement {
    let exp = expand(rs, args);
    let nontrivial = match &exp {
        Expansion::Expanded(i, _) => {
            *i > 0
                || rs.rules[*i].pattern != Pat::List(vec![], None) && {
                    let mut b = Bindings::new();
                    matches(&rs.rules[*i].pattern, args, &mut b);
                    b.values().any(|v| matches!(v, Bind::Seq(s) if s.len() >= 2))
                }
                || pat_depth(&rs.rules[*i].pattern) >= 2
                || !rs.literals.is_empty()
        }
        Expansion::NoMatch => rs.rules.len() >= 2,
        Expansion::OutOfClass => false,
    };
    if exp == Expansion::OutOfClass {
        return UseJudgement { nontrivial: false, fail: None, skipped: true };
    }
    match o {
        Outcome::Panic { site, msg } => {
            return UseJudgement { nontrivial, fail: Some((sut::panic_sig(site, msg), "expansion panicked".into())), skipped: false }
        }
        Outcome::Budget(_) => return UseJudgement { nontrivial: false, fail: None, skipped: true },
        _ => {}
    }
    match agrees(&exp, o) {
        Ok(()) => UseJudgement { nontrivial, fail: None, skipped: false },
        Err(detail) => {
            let sig = if rs.rules.iter().any(|r| pat_has_datum(&r.pattern)) && agrees(&relaxed_expand(rs, args), o).is_ok() {
                "pattern-datum-matches-any".to_string()
            } else {
                match (&exp, o) {
                    (Expansion::Expanded(..), Outcome::Value(_)) => "wrong-expansion".to_string(),
                    (Expansion::Expanded(..), Outcome::Error(e)) => format!("match-rejected:{}", e.tag),
                    (Expansion::NoMatch, Outcome::Value(_)) => "silent-mis-expansion".to_string(),
                    (Expansion::NoMatch, Outcome::Error(e)) => format!("no-match-wrong-error:{}", e.tag),
                    _ => "expansion-differs".to_string(),
                }
            };
            UseJudgement { nontrivial, fail: Some((sig, detail)), skipped: false }
        }
    }
}

// ------------------------------------------------------------------------------------
// (a) exhaustive family

fn elem(kind: usize, i: usize) -> Pat {
    let v = format!("p{}", i);
    match kind {
        0 => Pat::Var(v),
        1 => Pat::Lit("k".into()),
        2 => Pat::Underscore,
        3 => Pat::Datum(Datum::Int(5)),
        4 => Pat::List(vec![Pat::Var(v)], None),
        _ => Pat::Vector(vec![Pat::Var(v)], None),
    }
}

pub const N_ELEM: usize = 6;

/// all argument patterns: lists of up to 3 elements, the last one optionally under an ellipsis
pub fn small_patterns() -> Vec<Pat> {
    let mut out = vec![Pat::List(vec![], None)];
    for len in 1..=3usize {
        let combos = N_ELEM.pow(len as u32);
        for c in 0..combos {
            let mut items = vec![];
            let mut x = c;
            for i in 0..len {
                items.push(elem(x % N_ELEM, i));
                x /= N_ELEM;
            }
            out.push(Pat::List(items.clone(), None));
            let last = items.pop().unwrap();
            // `_ ...` and `literal ...` bind nothing: kept (they still decide the match)
            out.push(Pat::List(items, Some(Box::new(last))));
        }
    }
    out
}

/// template that exposes every binding: (ruleN v ... (seqvar ...))
pub fn exposing_template(idx: usize, p: &Pat) -> Tmpl {
    fn collect(p: &Pat, under: bool, plain: &mut Vec<String>, seq: &mut Vec<String>) {
        match p {
            Pat::Var(v) => {
                if under {
                    seq.push(v.clone())
                } else {
                    plain.push(v.clone())
                }
            }
            Pat::List(items, e) | Pat::Vector(items, e) => {
                for i in items {
                    collect(i, under, plain, seq);
                }
                if let Some(e) = e {
                    collect(e, true, plain, seq);
                }
            }
            _ => {}
        }
    }
    let (mut plain, mut seq) = (vec![], vec![]);
    collect(p, false, &mut plain, &mut seq);
    let mut items = vec![(Tmpl::Sym(format!("rule{}", idx)), false)];
    let plain_names = plain.clone();
    for v in plain {
        items.push((Tmpl::Var(v), false));
    }
    for v in &seq {
        items.push((Tmpl::List(vec![(Tmpl::Var(v.clone()), true)]), false));
    }
    // identifiers that are pattern variables of other rules but not of this one must stay plain symbols
    // `_` in a template is an ordinary symbol, whatever `_` matched in the pattern
    items.push((Tmpl::Sym("_".into()), false));
    for i in 0..3 {
        let name = format!("p{}", i);
        if !plain_names.contains(&name) && !seq.contains(&name) {
            items.push((Tmpl::Sym(name), false));
        }
    }
    Tmpl::List(items)
}

pub fn small_uses() -> Vec<Datum> {
    let opts = [
        Datum::Sym("k".into()),
        Datum::Sym("z".into()),
        Datum::Int(5),
        Datum::Int(6),
        Datum::List(vec![Datum::Int(1)], None),
        Datum::Vector(vec![Datum::Int(1)]),
        // an improper sub-form: a proper-list sub-pattern must not match it
        Datum::List(vec![Datum::Int(1)], Some(Box::new(Datum::Int(2)))),
        // data that are *written* like the literal identifier k, but are not identifiers
        Datum::Str("k".into()),
        Datum::Char('k'),
        // an inexact number equal in value to the exact datum 5 of the patterns
        Datum::Real("5.0".into()),
    ];
    let mut out = vec![Datum::List(vec![], None)];
    for len in 1..=3usize {
        for c in 0..opts.len().pow(len as u32) {
            let mut items = vec![];
            let mut x = c;
            for _ in 0..len {
                items.push(opts[x % opts.len()].clone());
                x /= opts.len();
            }
            // the use itself written with a dotted tail: (m a b . 7)
            if len <= 2 {
                out.push(Datum::List(items.clone(), Some(Box::new(Datum::Int(7)))));
            }
            out.push(Datum::List(items, None));
        }
    }
    out
}

fn judge_rule_set(rs: &RuleSet, uses: &[Datum]) -> Report {
    let rs_text = render_rule_set("m", rs);
    let use_texts: Vec<String> = uses.iter().map(|u| render_use("m", u)).collect();
    let (d, outs) = run_uses(rs_text.clone(), use_texts.clone());
    let mut rep = Report::new(rs_text.clone());
    if !matches!(d, Outcome::NoValue) {
        match &d {
            Outcome::Panic { site, msg } => rep.fail(sut::panic_sig(site, msg), "define-syntax panicked"),
            other => rep.fail("rule-set-rejected", format!("define-syntax gave {}", other.show())),
        }
        return rep;
    }
    let mut nt = 0u64;
    for (i, o) in outs.iter().enumerate() {
        let j = judge_use(rs, &uses[i], o);
        if j.nontrivial {
            nt += 1;
        }
        if let Some((sig, detail)) = j.fail {
            if rep.fails.is_empty() {
                rep.key = format!("{} {}", rs_text, use_texts[i]);
                rep.note = o.show();
            }
            if !rep.fails.iter().any(|f| f.sig == sig) {
                rep.fail(sig, format!("use {}: {}", use_texts[i], detail));
            }
        }
    }
    rep.nontrivial = nt > 0;
    rep.labels.push(format!("uses-per-rule-set:{}", uses.len()));
    rep
}

// ------------------------------------------------------------------------------------
// (b) random rule sets

struct PGen<'a, 'b> {
    ch: &'a mut Chooser<'b>,
    next_var: usize,
    literals: Vec<String>,
}

fn atom_datum(ch: &mut Chooser) -> Datum {
    match ch.below(6) {
        0 | 1 => Datum::Int(ch.range(0, 9) as i32),
        2 => Datum::Str(ch.pick_s(&["s", "t"]).to_string()),
        3 => Datum::Bool(ch.chance(1, 2)),
        4 => Datum::Char(*ch.pick(&['a', 'b'])),
        _ => Datum::Sym(ch.pick_s(&["y", "z", "w", "else", "=>", "quote"]).to_string()),
    }
}

fn random_datum(ch: &mut Chooser, depth: u32) -> Datum {
    if depth == 0 || ch.chance(3, 5) {
        return atom_datum(ch);
    }
    let n = ch.below(4);
    let items: Vec<Datum> = (0..n).map(|_| random_datum(ch, depth - 1)).collect();
    if ch.chance(1, 4) {
        Datum::Vector(items)
    } else if n >= 1 && ch.chance(1, 8) {
        let tail = atom_datum(ch);
        Datum::List(items, Some(Box::new(tail)))
    } else {
        Datum::List(items, None)
    }
}

impl<'a, 'b> PGen<'a, 'b> {
    /// `under`: inside an ellipsis sub-pattern (no further ellipsis allowed: depth 1)
    fn pat(&mut self, depth: u32, under: bool) -> Pat {
        let compound = depth > 0 && self.ch.chance(2, 5);
        if !compound {
            return match self.ch.weighted(&[8, 2, 2, 3]) {
                0 => {
                    self.next_var += 1;
                    Pat::Var(format!("v{}", self.next_var))
                }
                1 => Pat::Underscore,
                2 if !self.literals.is_empty() => {
                    let l = self.literals[self.ch.below(self.literals.len())].clone();
                    Pat::Lit(l)
                }
                _ => loop {
                    let d = atom_datum(self.ch);
                    if !matches!(d, Datum::Sym(_)) {
                        break Pat::Datum(d);
                    }
                },
            };
        }
        let n = self.ch.below(4);
        let items: Vec<Pat> = (0..n).map(|_| self.pat(depth - 1, under)).collect();
        let ell = if !under && self.ch.chance(2, 5) { Some(Box::new(self.pat(depth - 1, true))) } else { None };
        if self.ch.chance(1, 4) {
            Pat::Vector(items, ell)
        } else {
            Pat::List(items, ell)
        }
    }
}

/// (plain variables, groups of sequence variables: one group per ellipsis)
fn classify_vars(p: &Pat, plain: &mut Vec<String>, groups: &mut Vec<Vec<String>>) {
    match p {
        Pat::Var(v) => plain.push(v.clone()),
        Pat::List(items, e) | Pat::Vector(items, e) => {
            for i in items {
                classify_vars(i, plain, groups);
            }
            if let Some(e) = e {
                let mut g = vec![];
                let mut none = vec![];
                classify_vars(e, &mut g, &mut none);
                if !g.is_empty() {
                    groups.push(g);
                }
            }
        }
        _ => {}
    }
}

fn gen_template(ch: &mut Chooser, plain: &[String], groups: &[Vec<String>], depth: u32) -> Tmpl {
    let n = 1 + ch.below(4);
    let mut items = vec![];
    for _ in 0..n {
        match ch.weighted(&[5, 2, 2, 4, 2]) {
            0 if !plain.is_empty() => items.push((Tmpl::Var(plain[ch.below(plain.len())].clone()), false)),
            1 => {
                // a plain identifier, sometimes one that is a pattern variable in another rule of the same set
                let name = ch.pick_s(&["list", "quote-me", "t1", "if", "v1", "v2", "v3", "v4", "_", "_"]).to_string();
                if plain.contains(&name) || groups.iter().any(|g| g.contains(&name)) {
                    items.push((Tmpl::Sym("t1".into()), false));
                } else {
                    items.push((Tmpl::Sym(name), false));
                }
            }
            2 if ch.chance(1, 6) => items.push((Tmpl::List(vec![]), false)),
            2 => items.push((Tmpl::Datum(atom_datum(ch)), false)),
            3 if !groups.is_empty() => {
                // an ellipsis sub-template over the variables of one pattern ellipsis
                let g = &groups[ch.below(groups.len())];
                let sub = if ch.chance(1, 4) {
                    // the ellipsis variables sit one level below the top of the sub-template, next to constants
                    let k = 1 + ch.below(g.len().min(2));
                    let inner: Vec<(Tmpl, bool)> = (0..k).map(|_| (Tmpl::Var(g[ch.below(g.len())].clone()), false)).collect();
                    let inner = if ch.chance(1, 4) { Tmpl::Vector(inner) } else { Tmpl::List(inner) };
                    match ch.below(6) {
                        // an empty list as a constant of the repeated sub-template
                        4 => Tmpl::List(vec![(Tmpl::Sym("entry".into()), false), (inner, false), (Tmpl::List(vec![]), false)]),
                        5 => Tmpl::List(vec![(Tmpl::List(vec![]), false), (inner, false)]),
                        0 => Tmpl::List(vec![(Tmpl::Sym("entry".into()), false), (inner, false)]),
                        1 => Tmpl::Vector(vec![(inner, false)]),
                        2 => Tmpl::List(vec![(Tmpl::Datum(Datum::Int(1)), false), (inner, false), (Tmpl::Datum(Datum::Str("s".into())), false)]),
                        _ => Tmpl::List(vec![(inner, false)]),
                    }
                } else if g.len() == 1 || ch.chance(1, 2) {
                    Tmpl::Var(g[ch.below(g.len())].clone())
                } else {
                    let k = 1 + ch.below(g.len());
                    let mut elems: Vec<(Tmpl, bool)> = (0..k).map(|_| (Tmpl::Var(g[ch.below(g.len())].clone()), false)).collect();
                    if ch.chance(1, 4) {
                        let at = ch.below(elems.len() + 1);
                        elems.insert(at, (Tmpl::List(vec![]), false));
                    }
                    if ch.chance(1, 4) {
                        Tmpl::Vector(elems)
                    } else {
                        Tmpl::List(elems)
                    }
                };
                items.push((sub, true));
            }
            _ if depth > 0 => items.push((gen_template(ch, plain, groups, depth - 1), false)),
            _ => items.push((Tmpl::Datum(Datum::Int(0)), false)),
        }
    }
    if ch.chance(1, 5) {
        Tmpl::Vector(items)
    } else {
        Tmpl::List(items)
    }
}

fn form_for(ch: &mut Chooser, p: &Pat) -> Datum {
    match p {
        Pat::Var(_) | Pat::Underscore => random_datum(ch, 2),
        Pat::Lit(l) => Datum::Sym(l.clone()),
        Pat::Datum(d) => d.clone(),
        Pat::List(items, e) | Pat::Vector(items, e) => {
            let mut forms: Vec<Datum> = items.iter().map(|i| form_for(ch, i)).collect();
            if let Some(e) = e {
                for _ in 0..1 + ch.below(4) {
                    forms.push(form_for(ch, e));
                }
            }
            if matches!(p, Pat::List(..)) {
                Datum::List(forms, None)
            } else {
                Datum::Vector(forms)
            }
        }
    }
}

fn mutate(ch: &mut Chooser, d: &Datum, literals: &[String]) -> Datum {
    match d {
        Datum::List(items, None) | Datum::Vector(items) => {
            let mut v = items.clone();
            let is_list = matches!(d, Datum::List(..));
            match ch.below(8) {
                // an element becomes a quotation of itself: 'x is the two-element list (quote x)
                7 if !v.is_empty() => {
                    let i = ch.below(v.len());
                    v[i] = Datum::List(vec![Datum::Sym("quote".into()), v[i].clone()], None);
                }
                6 if is_list && !v.is_empty() => {
                    // the same elements with a dotted tail
                    return Datum::List(v, Some(Box::new(Datum::Int(7))));
                }
                0 if !v.is_empty() => {
                    let i = ch.below(v.len());
                    v.remove(i);
                }
                1 => {
                    let i = ch.below(v.len() + 1);
                    v.insert(i, random_datum(ch, 1));
                }
                2 if !v.is_empty() => {
                    let i = ch.below(v.len());
                    v[i] = mutate(ch, &v[i].clone(), literals);
                }
                3 => {
                    // list <-> vector
                    return if is_list { Datum::Vector(v) } else { Datum::List(v, None) };
                }
                4 if !v.is_empty() => {
                    let i = ch.below(v.len());
                    v[i] = Datum::List(vec![v[i].clone()], None);
                }
                _ if !v.is_empty() => {
                    let i = ch.below(v.len());
                    v[i] = atom_datum(ch);
                }
                _ => {}
            }
            if is_list {
                Datum::List(v, None)
            } else {
                Datum::Vector(v)
            }
        }
        Datum::Sym(s) if literals.contains(s) => match ch.below(3) {
            0 => Datum::Str(s.clone()),
            1 if s.chars().count() == 1 => Datum::Char(s.chars().next().unwrap()),
            _ => Datum::Sym("not-the-literal".into()),
        },
        Datum::Int(i) => {
            if ch.chance(1, 2) {
                Datum::Int(i + 1)
            } else {
                Datum::Real(format!("{}.0", i))
            }
        }
        _ => atom_datum(ch),
    }
}

pub fn random_case(ch: &mut Chooser) -> Report {
    let n_lit = ch.below(3);
    let literals: Vec<String> = ["else", "=>", "k"].iter().take(n_lit).map(|s| s.to_string()).collect();
    let n_rules = 1 + ch.below(5);
    let mut rules = vec![];
    for _ in 0..n_rules {
        let mut g = PGen { ch, next_var: 0, literals: literals.clone() };
        let n = g.ch.below(4);
        let items: Vec<Pat> = (0..n).map(|_| g.pat(2, false)).collect();
        let ell = if g.ch.chance(1, 3) { Some(Box::new(g.pat(2, true))) } else { None };
        let pattern = Pat::List(items, ell);
        let (mut plain, mut groups) = (vec![], vec![]);
        classify_vars(&pattern, &mut plain, &mut groups);
        let template = gen_template(ch, &plain, &groups, 2);
        rules.push(Rule { pattern, template });
    }
    let rs = RuleSet { literals: literals.clone(), rules };
    // uses derived from the rules' own patterns, and mutations of them
    let n_uses = 3 + ch.below(6);
    let mut uses = vec![];
    for _ in 0..n_uses {
        let r = ch.below(rs.rules.len());
        let mut u = form_for(ch, &rs.rules[r].pattern);
        for _ in 0..ch.weighted(&[5, 3, 2]) {
            u = mutate(ch, &u, &literals);
        }
        if !matches!(u, Datum::List(_, None)) {
            u = Datum::List(vec![u], None);
        }
        uses.push(u);
    }
    let mut rep = judge_rule_set(&rs, &uses);
    rep.labels.push(format!("rules:{}", rs.rules.len()));
    // label which outcomes occurred in the model
    for u in &uses {
        match expand(&rs, u) {
            Expansion::Expanded(0, _) => rep.labels.push("model:first-rule".into()),
            Expansion::Expanded(_, _) => rep.labels.push("model:later-rule".into()),
            Expansion::NoMatch => rep.labels.push("model:no-match".into()),
            Expansion::OutOfClass => rep.labels.push("model:out-of-class".into()),
        }
    }
    rep.labels.sort();
    rep.labels.dedup();
    rep
}

/// a history of rejected uses (no rule matches) nested inside other macro uses, all on one thread, must not change how
/// later uses are expanded - on the same interpreter and on one created afterwards
pub fn rejection_history_case(ch: &mut Chooser) -> Report {
    let k = if ch.chance(1, 4) { 1 + ch.below(40) } else { 150 + ch.below(250) };
    let wrapper = ch.below(6);
    let wrap = move |u: &str| match wrapper {
        0 => format!("(let ((x 1)) {})", u),
        1 => format!("(when #t {})", u),
        2 => format!("(cond (#f 0) (else {}))", u),
        3 => format!("(begin 0 {})", u),
        4 => format!("(outer {})", u),
        _ => format!("(let* ((x 1) (y x)) (list y {}))", u),
    };
    let mut rep = Report::new(format!("{} rejected uses written as {}", k, wrap("(pick third x 2)")));
    rep.label(format!("wrapper:{}", wrapper));
    rep.label(if k >= 150 { "rejections:150-399" } else { "rejections:1-40" });
    rep.nontrivial = k >= 150;
    let verdict: Result<(), (String, String)> = sut::in_thread(move || {
        let mut s = Session::stdlib().unwrap().with_budget(sut::Budget::FUZZ);
        let defs = [
            "(define-syntax pick (syntax-rules (first second) ((pick first a b) a) ((pick second a b) b)))",
            "(define-syntax outer (syntax-rules () ((outer e) (list e))))",
            "(define x 7)",
        ];
        for d in defs {
            if !matches!(s.eval(d), Outcome::NoValue) {
                return Err(("rule-set-rejected".to_string(), d.to_string()));
            }
        }
        let bad = wrap("(pick third x 2)");
        for i in 0..k {
            match s.eval(&bad) {
                Outcome::Error(_) => {}
                Outcome::Panic { site, msg } => return Err((sut::panic_sig(&site, &msg), format!("rejected use {}", i))),
                other => return Err(("no-match-not-reported".to_string(), format!("rejected use {} gave {}", i, other.show()))),
            }
        }
        let good = [("(pick second 1 2)", SVal::int(2)), ("(let ((q 5)) (pick first q 2))", SVal::int(5)), ("(when #t (pick second 1 (pick first 8 9)))", SVal::int(8))];
        for (text, want) in &good {
            match s.eval(text) {
                Outcome::Value(v) if v == *want => {}
                Outcome::Panic { site, msg } => return Err((sut::panic_sig(&site, &msg), text.to_string())),
                other => return Err(("matching-use-fails-after-rejected-uses".to_string(), format!("{} gave {} after {} rejected uses", text, other.show(), k))),
            }
        }
        // an interpreter created afterwards on the same thread
        let mut t = match Session::stdlib() {
            Ok(t) => t.with_budget(sut::Budget::FUZZ),
            Err(e) => return Err(("new-interpreter-fails-after-rejected-uses".to_string(), format!("{:?}", e))),
        };
        match t.eval("(let ((a 1)) (cond ((= a 1) (when #t (+ a 1))) (else 0)))") {
            Outcome::Value(v) if v == SVal::int(2) => Ok(()),
            other => Err(("bundled-macros-fail-after-rejected-uses".to_string(), other.show())),
        }
    });
    if let Err((sig, detail)) = verdict {
        rep.fail(sig, detail);
    }
    rep
}

pub fn run(ctx: &Ctx) {
    ctx.set_rule(
        "(define-syntax m (syntax-rules (lits) ((m . pattern) 'template) ...)) followed by uses (m . args) whose value is the \
         instantiated template as data or a no-match syntax error. (a) exhaustive: every rule set of one rule (sampled: two \
         rules) whose argument pattern is a list of <= 3 elements over {variable, literal identifier, _, datum, nested list, \
         nested vector}, the last optionally under an ellipsis, with a template exposing every binding, against every use \
         of <= 3 elements over {the literal, another symbol, two data, a nested list, a nested vector, a dotted pair}, the \
         shorter uses also with a dotted tail; (b) random rule sets (<= 5 rules, nesting <= 3, vectors, literals, ellipsis \
         over list sub-patterns, ellipsis sub-templates with constants around nested ellipsis variables) with uses \
         instantiated from their own patterns and mutated (incl. improper lists); (c) histories of 1-399 rejected uses nested in other macro uses on one thread, followed by matching uses on the same and on a new interpreter. Oracle: reference matcher/instantiator; one fresh interpreter thread per rule set. \
         Non-trivial = a later rule is chosen, an ellipsis matches >= 2 items, nesting >= 2, or literals are present.",
    );
    let pats = small_patterns();
    let uses = small_uses();
    let n = pats.len() as u64;
    ctx.note(format!("{} small patterns x {} uses", n, uses.len()));
    ctx.indexed("one-rule-sets", n, 1, |i| {
        let p = &pats[i as usize];
        let rs = RuleSet { literals: vec!["k".into()], rules: vec![Rule { pattern: p.clone(), template: exposing_template(0, p) }] };
        Some(judge_rule_set(&rs, &uses))
    });
    let stride = ctx.tier.pick((n * n / 400).max(1), (n * n / 20_000).max(1));
    ctx.indexed("two-rule-sets", n * n, stride, |i| {
        let (p0, p1) = (&pats[(i / n) as usize], &pats[(i % n) as usize]);
        let rs = RuleSet {
            literals: vec!["k".into()],
            rules: vec![Rule { pattern: p0.clone(), template: exposing_template(0, p0) }, Rule { pattern: p1.clone(), template: exposing_template(1, p1) }],
        };
        Some(judge_rule_set(&rs, &uses))
    });
    let cases = ctx.tier.pick(10_000, 100_000);
    ctx.random("random-rule-sets", cases, 400, random_case);
    // sub-patterns nested 1-12 levels deep (lists and vectors alternating), with a fall-back rule behind them
    ctx.indexed("deep-patterns", 24, 1, |i| {
        let depth = 1 + (i / 2) as usize;
        let vectors = i % 2 == 1;
        let wrap_pat = |mut p: Pat| {
            for k in 0..depth {
                p = if vectors && k % 2 == 1 { Pat::Vector(vec![p], None) } else { Pat::List(vec![p], None) };
            }
            p
        };
        let wrap_datum = |mut d: Datum, levels: usize| {
            for k in 0..levels {
                d = if vectors && k % 2 == 1 { Datum::Vector(vec![d]) } else { Datum::List(vec![d], None) };
            }
            d
        };
        let inner = Pat::List(vec![Pat::Var("p0".into())], Some(Box::new(Pat::Var("p1".into()))));
        let deep = Pat::List(vec![wrap_pat(inner)], None);
        let fallback = Pat::List(vec![Pat::Var("p2".into())], None);
        let rs = RuleSet {
            literals: vec![],
            rules: vec![Rule { pattern: deep.clone(), template: exposing_template(0, &deep) }, Rule { pattern: fallback.clone(), template: exposing_template(1, &fallback) }],
        };
        let core = Datum::List(vec![Datum::Int(1), Datum::Int(2), Datum::Sym("z".into())], None);
        let uses = vec![
            Datum::List(vec![wrap_datum(core.clone(), depth)], None),
            Datum::List(vec![wrap_datum(core.clone(), depth + 1)], None),
            Datum::List(vec![wrap_datum(core.clone(), depth.saturating_sub(1))], None),
            Datum::List(vec![wrap_datum(Datum::List(vec![Datum::Int(7), Datum::Int(8)], None), depth)], None),
        ];
        let mut rep = judge_rule_set(&rs, &uses);
        rep.labels.push(format!("pattern-depth:{}", depth));
        rep.nontrivial = true;
        Some(rep)
    });
    let histories = ctx.tier.pick(96, 600);
    ctx.random("rejection-history", histories, 8, rejection_history_case);
}
