//! C19 — interpreter instances are isolated from one another.
use crate::ast::render_form;
use crate::gen::{Gen, GenCfg};
use crate::runner::{Chooser, Ctx, Report};
use crate::sut::{self, Budget, Outcome, Session};
use ruschm::interpreter::LibraryFactory;
use ruschm::parser::{LibraryName, LibraryNameElement};

const MACROS: &[(&str, &str)] = &[
    ("sq", "(define-syntax sq (syntax-rules () ((sq e) (* e e))))"),
    ("sq", "(define-syntax sq (syntax-rules () ((sq e) (list e e))))"),
    ("twice", "(define-syntax twice (syntax-rules () ((twice e) (begin e e))))"),
    ("my-or", "(define-syntax my-or (syntax-rules () ((my-or a b) (if a a b))))"),
    ("unless", "(define-syntax unless (syntax-rules () ((unless c e) (if c e #f))))"),
    ("cond", "(define-syntax cond (syntax-rules () ((cond a) (quote replaced))))"),
    ("let", "(define-syntax let (syntax-rules () ((let a b) (quote replaced-let))))"),
    ("my-list", "(define-syntax my-list (syntax-rules () ((my-list x ...) (list x ...))))"),
];
const MACRO_USES: &[&str] = &["(my-list 1 2 3)", "(my-list)", "(sq 3)", "(twice 4)", "(my-or #f 5)", "(unless #f 6 7)", "(cond (#f 1) (else 2))", "(let ((q 1)) q)", "(cond 9)"];
const FAILING: &[&str] = &[
    // a syntax-rules form with a custom ellipsis, in a spelling this parser rejects
    "(define-syntax cm (syntax-rules ::: () ((_ x :::) (list x :::))))",
    "(define-syntax cm2 (syntax-rules ::: () ((cm2 (x :::) :::) (quote (x ::: :::)))))",
    "(car '())", "(undefined-procedure 1)", "(vector-ref (vector) 0)", ")", "(1 2", "(define)", "(import (no such library))", "(/ 1 0)"];

fn shared_lib_name() -> LibraryName {
    LibraryName(vec![LibraryNameElement::Identifier("shared".into()), LibraryNameElement::Identifier("lib".into())])
}

fn lib_text(value: i32, macro_def: Option<&str>) -> String {
    // instance A's version of the library may define a macro in its body: it must stay inside that library
    format!(
        "(define-library (shared lib) (export v get-v) (begin {} (define v {}) (define (get-v) v)))",
        macro_def.unwrap_or(""),
        value
    )
}

#[derive(Clone, Debug)]
pub struct Pair {
    pub a: Vec<String>,
    pub b: Vec<String>,
    /// true = next form comes from A
    pub schedule: Vec<bool>,
    /// positions (in the schedule) before which a fresh instance is created and probed
    pub probes: Vec<usize>,
    /// a define-syntax form inside the body of the library registered with instance A
    pub a_lib_macro: Option<String>,
    pub labels: Vec<&'static str>,
}

fn gen_program(ch: &mut Chooser, labels: &mut Vec<&'static str>, allow_failing: bool, is_b: bool) -> Vec<String> {
    let mut forms: Vec<String> = vec![];
    if ch.chance(1, 3) {
        forms.push("(import (shared lib))".to_string());
        labels.push(if is_b { "b-imports-shared-library" } else { "a-imports-shared-library" });
    }
    let imported = !forms.is_empty();
    let mut cfg = if ch.chance(1, 2) { GenCfg::core(2) } else { GenCfg::derived(2) };
    cfg.set = true;
    cfg.max_forms = 5;
    cfg.avoid.template_capture = true;
    let prog = {
        let mut g = Gen::new(ch, cfg);
        g.gen_program()
    };
    let mut texts: Vec<String> = prog.iter().map(render_form).collect();
    // sprinkle macro definitions / uses / failing forms / uses of the imported library
    let extra = ch.below(5);
    for _ in 0..extra {
        let pos = ch.below(texts.len() + 1);
        let t = match ch.below(6) {
            0 | 1 if !is_b || ch.chance(1, 3) => {
                labels.push(if is_b { "b-defines-syntax" } else { "a-defines-syntax" });
                ch.pick(MACROS).1.to_string()
            }
            2 | 3 => {
                if is_b {
                    labels.push("b-uses-macro-keyword");
                }
                ch.pick_s(MACRO_USES).to_string()
            }
            4 if allow_failing => {
                labels.push("a-fails");
                ch.pick_s(FAILING).to_string()
            }
            _ if imported => ch.pick_s(&["v", "(get-v)", "(define v 99)"]).to_string(),
            _ => format!("(define {} {})", ch.pick_s(crate::gen::VAR_NAMES), ch.range(0, 9)),
        };
        texts.insert(pos, t);
    }
    forms.extend(texts);
    forms
}

pub fn gen_pair(ch: &mut Chooser) -> Pair {
    let mut labels = vec![];
    let a = gen_program(ch, &mut labels, true, false);
    let b = gen_program(ch, &mut labels, false, true);
    let mut a = a;
    let mut b = b;
    let (mut ia, mut ib) = (0, 0);
    let mut schedule = vec![];
    // scripted openings: the situations in which per-thread or per-process state would be confused
    let mut forced_probes: Vec<usize> = vec![];
    match ch.below(19) {
        18 => {
            // A evaluates one form with several thousand uses of bundled macros; an instance is created right after it
            let n = 4200 + ch.below(1500);
            let big: String = format!("@nobudget:(begin {} 'done)", "(when #t 1) ".repeat(n));
            a.insert(0, big);
            b.insert(0, "(let ((q 1)) (cond ((= q 1) (when #t (+ q 1))) (else 0)))".to_string());
            schedule.extend([true, false]);
            forced_probes.push(1);
            ia = 1;
            ib = 1;
            labels.push("a-expands-thousands-of-macro-uses-in-one-form");
        }
        17 => {
            // A fails to import a library it has no file for; B then runs a program file whose directory holds that library
            a.insert(0, "(import (onlya util))".to_string());
            b.insert(0, "@file".to_string());
            schedule.extend([true, false]);
            ia = 1;
            ib = 1;
            labels.push("a-fails");
            labels.push("b-runs-a-program-file");
        }
        16 => {
            // B defines a macro under a name that A (or the bundled library source, read again for every new instance) uses
            // as the name of an ordinary procedure / parameter; B's next use of its macro follows A's call or the creation
            // of a new instance
            let name = *ch.pick(&["twice", "proc", "f", "pred", "lst", "x"]);
            b.splice(0..0, [format!("(define-syntax {n} (syntax-rules () (({n} e) (list 'b-macro e e))))", n = name), format!("({} 4)", name), format!("({} 5)", name), format!("(list ({} 6))", name)]);
            a.splice(0..0, [format!("(define ({} v) (list 'a-procedure v))", name), format!("({} 4)", name), format!("(map {} '(1 2))", name)]);
            // B define, B use, A define, A call, B use, [new instance], A map, B use
            schedule.extend([false, false, true, true, false, true, false]);
            forced_probes.push(5);
            ia = 3;
            ib = 4;
            labels.push("b-defines-syntax");
            labels.push("keyword-of-b-is-a-procedure-name-elsewhere");
        }
        15 => {
            // A prints empty and other vectors and drops them; the vectors B prints next are new objects (possibly at the
            // addresses of A's)
            a.splice(0..0, ["@display:(vector)", "@display:(list (make-vector 0 7) (vector))", "@display:(car (vector))", "@display:(vector (vector) 1)"].iter().map(|t| t.to_string()));
            b.splice(0..0, ["@display:(vector 1 2 3)", "@display:(list (vector 1) (vector) (make-vector 2 'x))", "@display:(vector-ref (vector 4 5) 2)", "@display:(vector (vector 6) 7)"].iter().map(|t| t.to_string()));
            schedule.extend([true, false, true, false, true, false, true, false]);
            ia = 4;
            ib = 4;
            labels.push("both-print-vectors");
        }
        13 => {
            // a string literal in A that ends in a lexical error; B's next string literals follow directly
            a.insert(0, (*ch.pick(&["(display \"abc\\qdef\")", "(list \"left over \\x;\")", "(define s \"never closed"])).to_string());
            b.splice(0..0, ["(list \"hello\" \"x\")".to_string(), "(quote |sym bol|)".to_string()]);
            schedule.extend([true, false, false]);
            ia = 1;
            ib = 2;
            labels.push("a-fails");
            labels.push("a-fails-inside-a-string-literal");
        }
        14 => {
            // A makes and drops large vectors (far more cells in total than are ever alive); B makes small ones
            a.splice(0..0, (0..5).map(|_| "@nobudget:(vector-length (make-vector 800000 0))".to_string()));
            b.splice(0..0, ["(vector-length (make-vector 300000 0))".to_string(), "(vector-length (make-vector 300000 'x))".to_string(), "(make-vector 3 'x)".to_string()]);
            schedule.extend([true, true, true, true, true, false, false, false]);
            ia = 5;
            ib = 3;
            labels.push("a-allocates-a-lot-in-total");
        }
        12 => {
            // a macro use in A that ends in an error while matching; B's next use of a macro of its own follows directly
            b.splice(0..0, ["(define x 100)".to_string(), "(define-syntax plus-x (syntax-rules () ((plus-x v) (+ v x))))".to_string(), "(plus-x 1)".to_string(), "(plus-x 2)".to_string()]);
            a.splice(0..0, ["(define-syntax pick (syntax-rules () ((pick x (... y)) x)))".to_string(), "(pick 7 (1 2))".to_string()]);
            schedule.extend([false, false, true, true, false, false]);
            ia = 2;
            ib = 4;
            labels.push("a-fails");
            labels.push("a-defines-syntax");
            labels.push("b-defines-syntax");
        }
        10 => {
            // A binds a *variable* named like a bundled derived form; B keeps using the derived form
            let (def, use_) = *ch.pick(&[
                ("(define (unless c x) x)", "(unless #f 6 7)"),
                ("(define cond 3)", "(cond (#f 1) (else 2))"),
                ("(define (when a) a)", "(when #t 1 2)"),
                ("(define let 1)", "(let ((q 1)) q)"),
                ("(define (case . r) r)", "(case 2 ((1 2) 'low) (else 'high))"),
                // a variable named like a literal of the bundled macros
                ("(define else #f)", "(cond (#f 1) (else 2))"),
                ("(define else #f)", "(case 7 ((1 2) 'low) (else 'high))"),
                ("(define => 1)", "(cond (5 => list) (else 2))"),
            ]);
            a.splice(0..0, [def.to_string(), "(append '(1) '(2))".to_string()]);
            b.splice(0..0, [use_.to_string(), "(append '(1) '(2))".to_string()]);
            schedule.extend([true, true, false, false]);
            ia = 2;
            ib = 2;
            labels.push("a-defines-a-variable-named-like-a-derived-form");
        }
        11 => {
            // many failing operations in A, each leaving several levels of user procedures through an error
            a.insert(0, "(define (nest n) (if (= n 0) (car 5) (+ 1 (nest (- n 1)))))".to_string());
            b.splice(0..0, ["(define (sum-to n) (if (= n 0) 0 (+ n (sum-to (- n 1)))))".to_string(), "(sum-to 10)".to_string()]);
            schedule.extend([true, false, false]);
            ia = 1;
            ib = 2;
            let rounds = 4;
            for r in 0..rounds {
                for _ in 0..3 {
                    a.insert(ia + r * 3, "(nest 24)".to_string());
                }
            }
            // A's failures are spread between further calls in B
            for _ in 0..rounds {
                schedule.extend([true, true, true, false]);
                b.insert(ib, "(list (sum-to 12) (vector-ref (make-vector 3 7) 1))".to_string());
                ia += 3;
                ib += 1;
            }
            labels.push("a-fails");
            labels.push("a-fails-deep-many-times");
        }
        8 => {
            // A and B each run a program file of their own; both directories hold a library of the same name
            a.insert(0, "@file".to_string());
            b.insert(0, "@file".to_string());
            schedule.extend([true, false]);
            ia = 1;
            ib = 1;
            labels.push("a-runs-a-program-file");
            labels.push("b-runs-a-program-file");
        }
        9 => {
            // a define-syntax that A's parser rejects, then B defines and uses an ordinary ellipsis macro
            a.insert(0, FAILING[ch.below(2)].to_string());
            b.splice(0..0, [MACROS[7].1.to_string(), "(my-list 1 2 3)".to_string()]);
            schedule.extend([true, false, false]);
            ia = 1;
            ib = 2;
            labels.push("a-fails");
            labels.push("b-defines-syntax");
        }
        0 => {
            // both instances define the same keyword with different meanings, then submit the identical use
            let (first, second) = if ch.chance(1, 2) { (0, 1) } else { (1, 0) };
            a.splice(0..0, [MACROS[first].1.to_string(), "(sq 3)".to_string()]);
            b.splice(0..0, [MACROS[second].1.to_string(), "(sq 3)".to_string()]);
            schedule.extend([true, false, true, false]);
            ia = 2;
            ib = 2;
            labels.push("same-keyword-different-meaning");
            labels.push("a-defines-syntax");
            labels.push("b-defines-syntax");
        }
        1 => {
            // A privately redefines a bundled keyword and uses it; B submits the identical use of the bundled one
            let k = 4 + ch.below(3);
            let use_ = match k {
                4 => "(unless #f 6 7)",
                5 => "(cond (#f 1) (else 2))",
                _ => "(let ((q 1)) q)",
            };
            a.splice(0..0, [MACROS[k].1.to_string(), use_.to_string()]);
            b.insert(0, use_.to_string());
            schedule.extend([true, true, false]);
            ia = 2;
            ib = 1;
            labels.push("same-keyword-different-meaning");
            labels.push("a-defines-syntax");
        }
        2 => {
            // A runs a program file (its directory holds a library); B, fed through eval, imports that library name
            a.insert(0, "@file".to_string());
            b.splice(0..0, [ch.pick_s(&["(import (onlya util))", "(import (onlya helper))", "(import (only (onlya helper) h))"]).to_string(), "(list 'after-import)".to_string()]);
            schedule.extend([true, false, false]);
            ia = 1;
            ib = 2;
            labels.push("a-runs-a-program-file");
        }
        _ => {}
    }
    while ia < a.len() || ib < b.len() {
        let take_a = if ia >= a.len() {
            false
        } else if ib >= b.len() {
            true
        } else {
            // front-load A a little so that its definitions precede B's uses
            ch.chance(3, 5)
        };
        schedule.push(take_a);
        if take_a {
            ia += 1
        } else {
            ib += 1
        }
    }
    let n_probes = ch.below(3);
    let mut probes: Vec<usize> = (0..n_probes).map(|_| ch.below(schedule.len() + 1)).collect();
    probes.extend(forced_probes);
    labels.sort();
    labels.dedup();
    let a_lib_macro = if ch.chance(1, 3) {
        labels.push("a-library-defines-syntax");
        Some(ch.pick(MACROS).1.to_string())
    } else {
        None
    };
    labels.sort();
    labels.dedup();
    Pair { a, b, schedule, probes, labels, a_lib_macro }
}

fn new_instance(lib_value: i32, macro_def: Option<&str>) -> Result<Session, (String, String)> {
    let mut s = Session::stdlib()?.with_host().with_budget(Budget::GENEROUS);
    if let Ok(f) = LibraryFactory::from_char_stream(&shared_lib_name(), lib_text(lib_value, macro_def).chars()) {
        s.it.register_library_factory(f);
    }
    Ok(s)
}

/// `@file`: the instance runs a program file from a directory of its own that holds a library (onlya util)
fn run_file_step(s: &mut Session, who: &str, answer: i32) -> Outcome {
    let dir = std::env::temp_dir().join(format!("rv-c19-{}-{:?}-{}", std::process::id(), std::thread::current().id(), who));
    let _ = std::fs::create_dir_all(dir.join("onlya"));
    // (the file holds a second library in front of the one that is asked for)
    let _ = std::fs::write(
        dir.join("onlya/util.sld"),
        format!("(define-library (onlya helper) (export h) (begin (define h {})))\n(define-library (onlya util) (export answer) (begin (define answer {})))\n", answer + 1000, answer),
    );
    let _ = std::fs::write(dir.join("main.scm"), "(import (scheme base) (onlya util))\n(+ answer 1)\n");
    let o = s.eval_file(&dir.join("main.scm"));
    let _ = std::fs::remove_dir_all(&dir);
    o
}

fn same(a: &Outcome, b: &Outcome) -> bool {
    match (a, b) {
        (Outcome::Value(x), Outcome::Value(y)) => x.equiv(y),
        (Outcome::Error(x), Outcome::Error(y)) => x.tag == y.tag && x.arg == y.arg && x.loc == y.loc,
        (Outcome::Budget(_), _) | (_, Outcome::Budget(_)) => true,
        _ => a == b,
    }
}

/// one form through an instance; "@display:TEXT" observes the printed text of the value (or of the error message)
fn eval_step(s: &mut Session, f: &str) -> Outcome {
    match f.strip_prefix("@display:") {
        Some(text) => match s.eval_display(text) {
            Ok(Some(t)) => Outcome::Value(crate::sut::SVal::Str(t)),
            Ok(None) => Outcome::NoValue,
            Err(e) => Outcome::Value(crate::sut::SVal::Str(format!("error: {}", e))),
        },
        None => s.eval(f),
    }
}

/// B alone on a fresh thread
fn run_alone(b: Vec<String>) -> Vec<Outcome> {
    sut::in_thread(move || {
        let mut s = match new_instance(2, None) {
            Ok(s) => s,
            Err((site, msg)) => return vec![Outcome::Panic { site, msg }],
        };
        b.iter().map(|f| if f == "@file" { run_file_step(&mut s, "b", 7) } else { eval_step(&mut s, f) }).collect()
    })
}

struct Interleaved {
    b: Vec<Outcome>,
    /// failures while creating / probing extra instances
    instance_failures: Vec<String>,
}

fn run_interleaved(p: Pair, skip_a_syntax: bool) -> Interleaved {
    sut::in_thread(move || {
        let mut out = Interleaved { b: vec![], instance_failures: vec![] };
        let mut sa = match new_instance(1, p.a_lib_macro.as_deref()) {
            Ok(s) => s,
            Err((site, msg)) => {
                out.instance_failures.push(format!("construct-{}", sut::panic_sig(&site, &msg)));
                return out;
            }
        };
        let mut sb = match new_instance(2, None) {
            Ok(s) => s,
            Err((site, msg)) => {
                out.instance_failures.push(format!("construct-{}", sut::panic_sig(&site, &msg)));
                return out;
            }
        };
        let (mut ia, mut ib) = (0, 0);
        for (k, take_a) in p.schedule.iter().enumerate() {
            if p.probes.contains(&k) {
                match new_instance(3, None) {
                    Err((site, msg)) => out.instance_failures.push(format!("construct-{}", sut::panic_sig(&site, &msg))),
                    Ok(mut s) => {
                        let o = s.eval("(quote ok)");
                        if !matches!(&o, Outcome::Value(crate::sut::SVal::Sym(x)) if x == "ok") {
                            out.instance_failures.push(format!("fresh-instance-broken:{}", o.show()));
                        }
                    }
                }
            }
            if *take_a {
                let f = &p.a[ia];
                ia += 1;
                if skip_a_syntax && f.starts_with("(define-syntax") {
                    continue;
                }
                if f == "@file" {
                    let _ = run_file_step(&mut sa, "a", 42);
                    continue;
                }
                if let Some(text) = f.strip_prefix("@nobudget:") {
                    // (the harness's own allocation budget would refuse this before the interpreter sees it)
                    let saved = sa.budget.take();
                    let _ = sa.eval(text);
                    sa.budget = saved;
                    continue;
                }
                let _ = eval_step(&mut sa, f);
            } else {
                let f = &p.b[ib];
                out.b.push(if f == "@file" { run_file_step(&mut sb, "b", 7) } else { eval_step(&mut sb, f) });
                ib += 1;
            }
        }
        out
    })
}

pub fn judge(p: &Pair) -> Report {
    let mut rep = Report::new(format!(
        "A:\n{}\nB:\n{}\nschedule: {}",
        p.a.join("\n"),
        p.b.join("\n"),
        p.schedule.iter().map(|x| if *x { 'A' } else { 'B' }).collect::<String>()
    ));
    for l in &p.labels {
        rep.label(*l);
    }
    // A touches a name (variable, procedure, macro keyword, library) that B uses later
    let a_defs: Vec<&str> = p.a.iter().filter(|f| f.starts_with("(define")).map(|f| f.as_str()).collect();
    rep.nontrivial = !a_defs.is_empty() && p.b.len() >= 2;
    let alone = run_alone(p.b.clone());
    let cwd_before = std::env::current_dir().ok();
    let inter = run_interleaved(p.clone(), false);
    let cwd_after = std::env::current_dir().ok();
    if cwd_before != cwd_after {
        rep.fail("process-working-directory-changed", format!("working directory {:?} before the two programs ran, {:?} afterwards", cwd_before, cwd_after));
        if let Some(d) = &cwd_before {
            let _ = std::env::set_current_dir(d);
        }
    }
    rep.note = inter.b.iter().map(|o| o.show()).collect::<Vec<_>>().join(" | ");
    if rep.note.len() > 600 {
        crate::sut::truncate_chars(&mut rep.note, 600);
    }
    for f in &inter.instance_failures {
        let sig = if p.a.iter().any(|x| x.starts_with("(define-syntax")) || p.b.iter().any(|x| x.starts_with("(define-syntax")) {
            format!("syntax-table-shared-per-thread:{}", f.split('#').next().unwrap_or(f))
        } else {
            f.clone()
        };
        rep.fail(sig, format!("creating / probing a fresh instance failed: {}", f));
    }
    if !rep.fails.is_empty() {
        return rep;
    }
    // what B's program file computes is known by construction (its library's `answer` is 7): a reference run that is
    // itself disturbed by what other instances of this process did earlier must not pass as "the same"
    for (i, f) in p.b.iter().enumerate() {
        if f == "@file" {
            if let Some(x) = alone.get(i) {
                if !matches!(x, Outcome::Value(v) if v.equiv(&crate::sut::SVal::int(8))) {
                    rep.fail("instance-interference:reference-run-disturbed", format!("B alone: the program file step gave {} instead of 8", x.show()));
                    return rep;
                }
            }
        }
    }
    for (i, (x, y)) in alone.iter().zip(inter.b.iter()).enumerate() {
        if !same(x, y) {
            // attribution by experiment: is A's define-syntax the cause?
            let a_has_syntax = p.a.iter().any(|f| f.starts_with("(define-syntax"));
            let mut sig = "instance-interference".to_string();
            if a_has_syntax {
                let again = run_interleaved(p.clone(), true);
                if again.b.len() == alone.len() && alone.iter().zip(again.b.iter()).all(|(u, v)| same(u, v)) {
                    sig = "syntax-table-shared-per-thread".to_string();
                }
            }
            rep.fail(sig, format!("B's form {} `{}`: alone {}, interleaved with A {}", i, p.b[i], x.show(), y.show()));
            break;
        }
    }
    if alone.len() != inter.b.len() && rep.fails.is_empty() {
        rep.fail("instance-interference", "different number of outcomes");
    }
    rep
}

pub fn run(ctx: &Ctx) {
    ctx.set_rule(
        "pairs of programs A and B from the program generators over one shared pool of names (variables, procedures, \
         macro keywords incl. the bundled ones, one library name registered with different contents in each instance), A \
         may contain failing forms and run a program file; scripted openings put the same macro keyword with different \
         meanings (private definitions in both, or a private redefinition of a bundled keyword in A) in front of textually \
         identical uses; their forms are interleaved at random over two interpreter instances created on one \
         thread, with extra instances created at random points and asked for (quote ok). Oracle (self-differential): B's \
         per-form outcomes in the interleaving equal B's outcomes when run alone in a fresh thread; creating an instance \
         never fails. Non-trivial = A defines something and B has >= 2 forms.",
    );
    let cases = ctx.tier.pick(8_000, 40_000);
    ctx.random("pairs", cases, 500, |ch| judge(&gen_pair(ch)));
}
