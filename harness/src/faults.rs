//! Fault injection for C08 / C15 / C17 / C18: one faulting operation of a given kind in a given calling context.
use crate::ast::*;
use crate::runner::Chooser;

pub const KINDS: [&str; 8] = ["non-procedure", "arity", "unbound-read", "unbound-set", "wrong-type", "vector-index", "literal-mutation", "division-by-zero"];
pub const CONTEXTS: [&str; 5] = ["direct", "non-tail", "tail", "apply", "library"];

/// prelude shared by all fault programs
pub fn prelude() -> Vec<Form> {
    let d = |n: &str, v: Expr| Form::Define(Def { name: n.into(), value: v, sugar: false });
    let lam = |fixed: &[&str], rest: Option<&str>, body: Expr| {
        Expr::Lambda(Formals { fixed: fixed.iter().map(|s| s.to_string()).collect(), rest: rest.map(|s| s.to_string()) }, body1(body))
    };
    vec![
        d("wn", Expr::Int(0)),
        d("wv", app("vector", vec![Expr::Int(1), Expr::Int(2), Expr::Int(3)])),
        d("lit", Expr::VecLit(vec![Datum::Int(1), Datum::Int(2), Datum::Int(3)])),
        Form::Define(Def { name: "two".into(), value: lam(&["p", "q"], None, Expr::Tick(70, Box::new(var("p")))), sugar: true }),
        Form::Define(Def { name: "var2".into(), value: lam(&["p", "q"], Some("r"), var("q")), sugar: true }),
        d("five", Expr::Int(5)),
    ]
}

/// a faulting call (operator, operands) of the given kind, or None when the kind is not a call (unbound read/set!)
pub fn fault_call(ch: &mut Chooser, kind: &str) -> Option<(Expr, Vec<Expr>)> {
    let q = |d: Datum| Expr::Quote(d);
    let ilist = |v: Vec<i32>| Datum::List(v.into_iter().map(Datum::Int).collect(), None);
    Some(match kind {
        "non-procedure" => match ch.below(4) {
            0 => (Expr::Marked(Box::new(Expr::Int(5))), vec![Expr::Int(1)]),
            1 => (Expr::Marked(Box::new(var("five"))), vec![]),
            2 => (Expr::Marked(Box::new(q(Datum::Sym("a".into())))), vec![Expr::Int(1), Expr::Int(2)]),
            _ => (Expr::Marked(Box::new(app("car", vec![q(ilist(vec![1, 2]))]))), vec![Expr::Int(2)]),
        },
        "arity" => match ch.below(14) {
            // builtins with a fixed number of parameters, one too many and one too few
            8 => (var("make-vector"), vec![Expr::Int(2), Expr::Int(0), Expr::Int(0)]),
            9 => (var("make-vector"), vec![Expr::Int(2)]),
            10 => (var("vector-ref"), vec![var("wv"), Expr::Int(0), Expr::Int(1)]),
            11 => (var("cons"), vec![Expr::Int(1), Expr::Int(2), Expr::Int(3)]),
            12 => (var("car"), vec![q(ilist(vec![1])), q(ilist(vec![2]))]),
            13 => (var("vector-set!"), vec![var("wv"), Expr::Int(0)]),
            0 => (var("two"), vec![Expr::Int(1)]),
            1 => (var("two"), vec![Expr::Int(1), Expr::Int(2), Expr::Int(3)]),
            2 => (var("var2"), vec![Expr::Int(1)]),
            3 => (var("var2"), vec![]),
            4 => (var("car"), vec![]),
            5 => (var("cons"), vec![Expr::Int(1)]),
            6 => (var("vector-ref"), vec![var("wv")]),
            _ => (Expr::Lambda(Formals { fixed: vec!["u".into()], rest: None }, body1(var("u"))), vec![Expr::Int(1), Expr::Int(2)]),
        },
        "wrong-type" => match ch.below(14) {
            // a comparison applied to a single argument still checks its type
            11 => (var("<"), vec![q(Datum::Sym("a".into()))]),
            12 => (var(">="), vec![Expr::Str("x".into())]),
            13 => (var("="), vec![Expr::Bool(true)]),
            // a non-number after an absorbing / neutral element, in every arithmetic and comparison procedure
            6 => (var("*"), vec![Expr::Int(0), q(Datum::Sym("a".into()))]),
            7 => (var("*"), vec![Expr::Int(3), Expr::Int(0), Expr::Str("x".into()), Expr::Int(4)]),
            8 => (var("+"), vec![Expr::Int(0), Expr::Bool(true)]),
            9 => (var("="), vec![Expr::Int(1), Expr::Int(2), q(Datum::Sym("a".into()))]),
            10 => (var("max"), vec![Expr::Int(1), Expr::Str("2".into())]),
            0 => (var("+"), vec![Expr::Int(1), q(Datum::Sym("a".into()))]),
            1 => (var("car"), vec![Expr::Int(5)]),
            2 => (var("vector-ref"), vec![q(ilist(vec![1])), Expr::Int(0)]),
            3 => (var("<"), vec![Expr::Int(1), Expr::Bool(true)]),
            4 => (var("cdr"), vec![q(Datum::List(vec![], None))]),
            _ => (var("vector-length"), vec![Expr::Int(3)]),
        },
        "vector-index" => match ch.below(7) {
            4 => (var("vector-set!"), vec![var("wv"), Expr::Int(-1), Expr::Int(0)]),
            5 => (var("vector-set!"), vec![var("wv"), Expr::Int(-2), Expr::Quote(Datum::Sym("neg".into()))]),
            6 => (var("vector-set!"), vec![var("wv"), Expr::Int(3), Expr::Int(0)]),
            0 => (var("vector-ref"), vec![var("wv"), Expr::Int(3)]),
            1 => (var("vector-ref"), vec![var("wv"), Expr::Int(-1)]),
            2 => (var("vector-set!"), vec![var("wv"), Expr::Int(5), Expr::Int(0)]),
            _ => (var("vector-ref"), vec![app("vector", vec![]), Expr::Int(0)]),
        },
        "literal-mutation" => match ch.below(3) {
            0 => (var("vector-set!"), vec![var("lit"), Expr::Int(0), Expr::Int(9)]),
            1 => (var("vector-set!"), vec![Expr::VecLit(vec![Datum::Int(1), Datum::Int(2)]), Expr::Int(1), Expr::Int(9)]),
            _ => (var("vector-set!"), vec![q(Datum::Vector(vec![Datum::Int(4)])), Expr::Int(0), Expr::Int(9)]),
        },
        "division-by-zero" => match ch.below(10) {
            // a zero dividend does not make the division by exact zero any less of an error
            7 => (var("floor-remainder"), vec![Expr::Int(0), Expr::Int(0)]),
            8 => (var("floor-quotient"), vec![Expr::Int(0), Expr::Int(0)]),
            9 => (var("/"), vec![Expr::Int(0), Expr::Int(0)]),
            0 => (var("/"), vec![Expr::Int(1), Expr::Int(0)]),
            1 => (var("/"), vec![Expr::Int(5), app("-", vec![Expr::Int(2), Expr::Int(2)])]),
            2 => (var("floor-quotient"), vec![Expr::Int(7), Expr::Int(0)]),
            3 => (var("floor-remainder"), vec![Expr::Int(7), Expr::Int(0)]),
            4 => (var("/"), vec![Expr::Int(0)]),
            5 => (var("/"), vec![app("-", vec![Expr::Int(3), Expr::Int(3)])]),
            _ => (var("/"), vec![Expr::Ratio(1, 2), Expr::Int(0)]),
        },
        // the unbound variable is the operator of a call (one time in three); otherwise a plain read (not a call)
        "unbound-read" if ch.chance(1, 3) => (Expr::Marked(Box::new(var("nowhere-bound"))), if ch.chance(1, 2) { vec![Expr::Int(1)] } else { vec![] }),
        _ => return None,
    })
}

fn non_call_fault(kind: &str) -> Expr {
    match kind {
        "unbound-read" => Expr::Marked(Box::new(var("nowhere-bound"))),
        // the value expression has an effect of its own: it is evaluated before the assignment can fail (r7rs 4.1.6)
        _ => Expr::Set("nowhere-bound".into(), Box::new(Expr::Tick(82, Box::new(Expr::Int(1))))),
    }
}

/// wrap an expression in harmless layers so that the fault sits at some depth
fn bury(ch: &mut Chooser, e: Expr, tail_preserving: bool, derived: bool) -> Expr {
    let mut cur = e;
    for _ in 0..ch.below(3) {
        let pick = ch.below(if tail_preserving { 7 } else { 10 });
        // without derived forms only `if` and operand wrappers are used
        let pick = if !derived && ((1..=6).contains(&pick) || pick == 9) { if tail_preserving { 0 } else { 7 + pick % 2 } } else { pick };
        cur = match pick {
            0 => Expr::If(Box::new(Expr::Bool(true)), Box::new(cur), Some(Box::new(Expr::Int(0)))),
            1 => Expr::Let(vec![("bq".into(), Expr::Int(1))], body1(cur)),
            2 => Expr::Cond(vec![Clause::Then(Expr::Bool(false), vec![Expr::Int(1)])], Some(vec![cur])),
            3 => Expr::Begin(vec![Expr::Tick(60, Box::new(Expr::Int(0))), cur]),
            // the last operand of and / or and the test of a final test-only cond clause: the expansion is the operand itself
            4 => Expr::And(vec![Expr::Bool(true), Expr::Int(1), cur]),
            5 => Expr::Or(vec![Expr::Bool(false), cur]),
            6 => Expr::Cond(vec![Clause::Then(Expr::Bool(false), vec![Expr::Int(1)]), Clause::Test(cur)], None),
            // the key of a case that has nothing but an else clause
            // (a compound key only: the r7rs reference definition of case does not mention an atomic key in this rule)
            9 if !matches!(&cur, Expr::Var(_) | Expr::Marked(_)) => Expr::Case(Box::new(cur), vec![], Some(CaseBody::Exprs(vec![Expr::Quote(Datum::Sym("fallback".into()))]))),
            9 => app("car", vec![app("list", vec![cur])]),
            7 => app("car", vec![app("list", vec![cur])]),
            _ => app("+", vec![Expr::Int(1), app("car", vec![app("list", vec![cur, Expr::Int(2)])])]),
        };
    }
    cur
}

pub struct FaultForm {
    pub kind: &'static str,
    pub context: &'static str,
    /// a definition that must be evaluated (successfully) somewhere before the faulting form
    pub pre: Option<Form>,
    pub form: Form,
}

/// contexts used by C08 only: the faulting operation sits in a procedure defined by an earlier top-level form
pub const CONTEXTS_C08: [&str; 6] = ["direct", "non-tail", "tail", "apply", "library", "deferred"];
/// judged by C08 only (C15 gives `deferred` a treatment of its own)
pub const CONTEXTS_C08_ONLY: [&str; 1] = ["loop"];

/// the faulting top-level form: effects before, the fault in its context, effects that must not happen
pub fn fault_form(ch: &mut Chooser, kind: &'static str, context: &'static str) -> FaultForm {
    fault_form_with(ch, kind, context, true)
}

/// `derived` = false keeps the form free of derived forms (effects are sequenced by a lambda body)
pub fn fault_form_with(ch: &mut Chooser, kind: &'static str, context: &'static str, derived: bool) -> FaultForm {
    let call = fault_call(ch, kind);
    let lam0 = |body: Expr| Expr::Lambda(Formals { fixed: vec![], rest: None }, body1(body));
    let elem_lam = |body: Expr| Expr::Lambda(Formals { fixed: vec!["e".into()], rest: None }, body1(body));
    let direct = |call: &Option<(Expr, Vec<Expr>)>| match call {
        Some((f, args)) => Expr::App(Box::new(f.clone()), args.clone()),
        None => non_call_fault(kind),
    };
    let mut pre = None;
    let core = match context {
        "deferred" => {
            // (define (later-fault a) ... FAULT ...) earlier; the faulting form only calls it, in some calling context
            let tailp = ch.chance(1, 2);
            let body = bury(ch, direct(&call), tailp, derived);
            // the fault is the last statement of the body, or is followed by another statement
            let stmts = if ch.chance(1, 2) { vec![body] } else { vec![body, Expr::Int(0)] };
            pre = Some(Form::Define(Def {
                name: "later-fault".into(),
                value: Expr::Lambda(Formals { fixed: vec!["later-arg".into()], rest: None }, Box::new(Body { defs: vec![], exprs: stmts })),
                sugar: true,
            }));
            match ch.below(4) {
                0 => app("later-fault", vec![Expr::Int(1)]),
                1 => Expr::App(Box::new(lam0(app("later-fault", vec![Expr::Int(1)]))), vec![]),
                2 => Expr::Apply(Box::new(var("later-fault")), vec![], Box::new(Expr::Quote(Datum::List(vec![Datum::Int(1)], None)))),
                _ => app("map", vec![var("later-fault"), Expr::Quote(Datum::List(vec![Datum::Int(1), Datum::Int(2)], None))]),
            }
        }
        "loop" => {
            // the fault happens in a later iteration of a self tail-calling loop defined by an earlier form (the calls before
            // it succeeded); an arity fault may be the loop's own tail call with one argument too many / too few
            let self_call = kind == "arity" && ch.chance(1, 2);
            let faulty = if self_call {
                match ch.below(3) {
                    0 => app("fault-loop", vec![Expr::Int(0), Expr::Int(0), Expr::Int(99)]),
                    1 => app("fault-loop", vec![Expr::Int(0)]),
                    _ => app("fault-loop", vec![]),
                }
            } else {
                bury(ch, direct(&call), true, derived)
            };
            let again = app("fault-loop", vec![app("-", vec![var("fl-i"), Expr::Int(1)]), app("+", vec![var("fl-acc"), Expr::Int(1)])]);
            let body = Expr::If(
                Box::new(app("=", vec![var("fl-i"), Expr::Int(1)])),
                Box::new(faulty),
                Some(Box::new(Expr::If(Box::new(app("=", vec![var("fl-i"), Expr::Int(0)])), Box::new(var("fl-acc")), Some(Box::new(again))))),
            );
            pre = Some(Form::Define(Def {
                name: "fault-loop".into(),
                value: Expr::Lambda(Formals { fixed: vec!["fl-i".into(), "fl-acc".into()], rest: None }, body1(body)),
                sugar: true,
            }));
            app("fault-loop", vec![Expr::Int(1 + ch.below(5) as i32), Expr::Int(0)])
        }
        "direct" => bury(ch, direct(&call), false, derived),
        "non-tail" => {
            // inside a procedure, in operand position
            let inner = app("+", vec![Expr::Int(1), app("car", vec![app("list", vec![bury(ch, direct(&call), false, derived)])])]);
            Expr::App(Box::new(lam0(inner)), vec![])
        }
        "tail" => {
            // the faulting call is the tail call of a procedure (possibly under tail-preserving forms)
            let t = bury(ch, direct(&call), true, derived);
            match ch.below(2) {
                0 => Expr::App(Box::new(lam0(t)), vec![]),
                _ => Expr::App(Box::new(lam0(Expr::App(Box::new(lam0(t)), vec![]))), vec![]),
            }
        }
        "apply" => match &call {
            Some((f, args)) => {
                let k = ch.below(args.len() + 1);
                let lead: Vec<Expr> = args[..args.len() - k].to_vec();
                let tail: Vec<Expr> = args[args.len() - k..].to_vec();
                bury(ch, Expr::Apply(Box::new(f.clone()), lead, Box::new(app("list", tail))), false, derived)
            }
            None => bury(ch, Expr::Apply(Box::new(lam0(non_call_fault(kind))), vec![], Box::new(Expr::Quote(Datum::List(vec![], None)))), false, derived),
        },
        _ => {
            // called from a library procedure
            let lst = Expr::Quote(Datum::List(vec![Datum::Int(1), Datum::Int(2)], None));
            let f = elem_lam(direct(&call));
            match ch.below(5) {
                0 => app("map", vec![f, lst]),
                1 => app("for-each", vec![f, lst]),
                2 => app("fold-left", vec![Expr::Lambda(Formals { fixed: vec!["e".into(), "acc".into()], rest: None }, body1(direct(&call))), Expr::Int(0), lst]),
                3 => app("fold-right", vec![Expr::Lambda(Formals { fixed: vec!["e".into(), "acc".into()], rest: None }, body1(direct(&call))), Expr::Int(0), lst]),
                _ => {
                    // the library procedure itself performs the faulting call
                    match kind {
                        "non-procedure" => app("map", vec![Expr::Marked(Box::new(Expr::Int(5))), lst]),
                        "arity" => app("map", vec![var("two"), lst]),
                        "wrong-type" => app("for-each", vec![var("car"), lst]),
                        "division-by-zero" => app("fold-right", vec![var("/"), Expr::Int(0), lst]),
                        _ => app("map", vec![f, lst]),
                    }
                }
            }
        }
    };
    let before = vec![
        Expr::Set("wn".into(), Box::new(app("+", vec![var("wn"), Expr::Int(1)]))),
        app("vector-set!", vec![var("wv"), Expr::Int(0), Expr::Tick(80, Box::new(Expr::Quote(Datum::Sym("before".into()))))]),
    ];
    let after = vec![Expr::Tick(81, Box::new(Expr::Int(0))), Expr::Set("wn".into(), Box::new(Expr::Int(100)))];
    let mut seq = vec![];
    let with_effects = ch.chance(3, 4);
    if with_effects {
        seq.extend(before);
    }
    seq.push(core);
    if with_effects {
        seq.extend(after);
    }
    let e = if seq.len() == 1 {
        seq.pop().unwrap()
    } else if derived {
        Expr::Begin(seq)
    } else {
        Expr::App(Box::new(Expr::Lambda(Formals { fixed: vec![], rest: None }, Box::new(Body { defs: vec![], exprs: seq }))), vec![])
    };
    FaultForm { kind, context, pre, form: Form::Expr(e) }
}

/// forms that observe what the fault form left behind
pub fn probes() -> Vec<Form> {
    vec![
        // the variable of the unbound-read / unbound-set faults is still unbound (reading it is an error again)
        Form::Expr(var("nowhere-bound")),
        Form::Expr(var("wn")),
        Form::Expr(var("wv")),
        Form::Expr(app("vector-ref", vec![var("lit"), Expr::Int(0)])),
        Form::Expr(app("two", vec![Expr::Int(1), Expr::Int(2)])),
        Form::Expr(Expr::Quote(Datum::Sym("ok".into()))),
    ]
}
