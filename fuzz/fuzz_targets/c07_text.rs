#![no_main]
use libfuzzer_sys::fuzz_target;
use rv::fuzzsupport;

// C07: any text -> no panic, interpreter still usable (budgeted: non-termination / deep recursion are outside the claim)
fuzz_target!(|data: &[u8]| {
    let text = String::from_utf8_lossy(data).to_string();
    if fuzzsupport::nesting(&text) > 200 {
        return;
    }
    let rep = rv::checks::c07::judge_text(&text, rv::sut::Budget::FUZZ);
    fuzzsupport::verdict("C07", &rep);
});
