#![no_main]
use libfuzzer_sys::fuzz_target;
use rv::fuzzsupport;

// structure-aware target: the input is a sequence of generator choices (4 bytes each) preceded by one byte that
// selects the property whose case generator and oracle are driven (C01 C03 C04 C05 C08 C11 C13 C16 C19)
fuzz_target!(|data: &[u8]| {
    fuzzsupport::choices_target(data);
});
