#![no_main]
use libfuzzer_sys::fuzz_target;
use rv::fuzzsupport;
use rv::runner::Report;

// C18: the REPL's completeness predicate against the token-aware reference
fuzz_target!(|data: &[u8]| {
    let text = String::from_utf8_lossy(data).to_string();
    let (_, _, f) = rv::checks::c18::judge_complete(&text);
    let mut rep = Report::new(format!("{:?}", text));
    if let Some((s, d)) = f {
        rep.fail(s, d);
    }
    fuzzsupport::verdict("C18", &rep);
});
