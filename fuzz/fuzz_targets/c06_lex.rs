#![no_main]
use libfuzzer_sys::fuzz_target;
use rv::fuzzsupport;
use rv::runner::Report;

// C06: the real lexer against the reference tokenizer on arbitrary (mostly ASCII) text
fuzz_target!(|data: &[u8]| {
    let text: String = data.iter().map(|b| if *b == b'\n' || (*b >= 32 && *b < 127) { *b as char } else { ' ' }).collect();
    let (_, f, _) = rv::checks::c06::judge_lex(&text);
    let mut rep = Report::new(format!("{:?}", text));
    if let Some((s, d)) = f {
        rep.fail(s, d);
    }
    fuzzsupport::verdict("C06", &rep);
});
