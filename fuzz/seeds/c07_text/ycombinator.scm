(import (scheme base) (scheme write))

(define Y                 ; (Y f) = (g g) where
  (lambda (f)             ;         (g g) = (f  (lambda a (apply (g g) a)))
    ((lambda (g) (g g))   ; (Y f) ==        (f  (lambda a (apply (Y f) a)))
     (lambda (g)
       (f  (lambda a (apply (g g) a)))))))

;; head-recursive factorial
(define fac                ; fac = (Y f) = (f      (lambda a (apply (Y f) a)))
  (Y (lambda (r)           ;     = (lambda (x) ... (r     (- x 1)) ... )
       (lambda (x)         ;        where   r    = (lambda a (apply (Y f) a))
         (if (< x 2)       ;               (r ... ) == ((Y f) ... )
             1             ;     == (lambda (x) ... (fac  (- x 1)) ... )
             (* x (r (- x 1))))))))

;; tail-recursive factorial
(define fac2
  (lambda (x)
    ((Y (lambda (r)        ;       (Y f) == (f     (lambda a (apply (Y f) a)))
          (lambda (x acc)  ;          r         == (lambda a (apply (Y f) a))
            (if (< x 2)    ;         (r ... )   == ((Y f) ... )
                acc
                (r (- x 1) (* x acc))))))
     x 1)))

; double-recursive Fibonacci
(define fib
  (Y (lambda (f)
       (lambda (x)
         (if (< x 2)
             x
             (+ (f (- x 1)) (f (- x 2))))))))

; tail-recursive Fibonacci
(define fib2
  (lambda (x)
    ((Y (lambda (f)
          (lambda (x a b)
            (if (< x 1)
                a
                (f (- x 1) b (+ a b))))))
     x 0 1)))

(display (fac 6))
(newline)

(display (fib2 46))
(newline)
