(import (scheme base) (scheme write))
(define (fib x)
    (if (< x 2)
        1
        (+ (fib (- x 2)) (fib (- x 1)))))

        ;test

(define fib-seq
    (lambda (x)
        (if (< x 1) 1
            (fib-seq (- x 1)))
        (display (fib x))
        (newline)
        1))

(fib-seq 26)
