(import (scheme base) (scheme write))

(display (begin 1 2 1 2 3))
(newline)

(display (cond
    ((< 2 1) => 0)
    ((< 3 2) => 1)
    ((< 4 3) => 2)
    (else 4)))
(newline)

(let ((a 1)(b 2)) (display a)(display b))
(newline)

(define foo 1)

(and (< 2 1) (begin (set! foo 2) #t))
(display "foo is ")
(display foo)
(newline)

(or (< 2 1) (begin (set! foo 2) #t))
(display "foo is ")
(display foo)
(newline)

(let* ((a 1)(b (+ a 2))) (display a)(display b))
(newline)

(define-syntax vector-to-list
    (syntax-rules ()
        ((vector-to-list #(element ...)) '(element ...))))

(display (vector-to-list #(1 2 3)))
(newline)
