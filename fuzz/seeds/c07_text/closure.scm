(import (scheme base) (scheme write))
(define make-seq-gen (lambda ()
            (define current 0)
            (lambda () (set! current (+ current 1)) current )))

(define seq-gen (make-seq-gen))
(display (seq-gen))
(newline)
(display (seq-gen))
(newline)
(display (seq-gen))
(newline)

