(import (scheme base) (scheme write))
(define (fib-internal acc x)
    (if (< x 2)
        (+ acc 1)
        (fib-internal (fib-internal acc (- x 2)) (- x 1))
    )
)
(define (fib x) 
    (fib-internal 0 x))

(define (fib-seq-internal i x)
    (display (fib i))
    (newline)
    (if (< i x)
        (fib-seq-internal (+ i 1) x)
        1
    )
)

(define fib-seq
    (lambda (x)
        (fib-seq-internal 0 x)))

(fib-seq 26)
